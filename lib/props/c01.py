"""C01 — structures execute as specified (translation validation per program).

Deciding oracle: the structure model (lib/models/structure.py) interprets the
generator's AST; the implementation gets the program *text* through the real
entry point execute_vyxal. Compared: final stack (captured when the transpiled
program returns), everything written to stdout, and termination status."""
from __future__ import annotations

import random

from lib import harness

ID = "C01"
LEVEL = "translation_validation"
RULE = (
    "programs generated from the structure grammar (G-struct: literals, ~35 core elements, variables, "
    "if/for/while, λ ƛ ' µ, named functions, list literals, 11 modifiers, break/recurse; depth<=4, <=30 nodes), "
    "0-3 inputs of small ints / int lists, flag sets {'',O,o,j,s,W,H,M,m}; plus every sequence of <=2 (quick) / <=3 (thorough) "
    "top-level statements over a 34-template alphabet x 3 input lists; a case counts when the reference model "
    "does not Skip (documents determine the behaviour) and the implementation run was observed by the exec probe; "
    "distinct_nontrivial = distinct (program text, inputs, flags) containing at least one structure"
)
ASSUMPTIONS = [
    "reference model written from documents/specs and elements.yaml; where they are silent the case is skipped (counted by reason)",
    "bodies evaluated lazily by the implementation are kept free of effects (model skips otherwise), so evaluation order is unobservable",
    "if-statement context binding: documents disagree; either reading accepted per program, mixed readings in one run reported",
]
MIN_COUNTERS = {"compared": {"quick": 3000, "thorough": 30000}, "exec_probe_hits": {"quick": 3000, "thorough": 30000},
                "trace_boundaries_observed": {"quick": 10000, "thorough": 100000},
                "exhaustive_programs": {"quick": 3000, "thorough": 100000}}
UNIT_TIMEOUT = 150
FLAGSETS = ["", "", "", "O", "o", "j", "s", "W", "H", "M", "m"]


# exhaustive part: every sequence of top-level statements over this alphabet (length <= 2 quick, <= 3 thorough)
EXH = [
    [["num", 0]], [["num", 1]], [["num", 3]],
    [["el", "+"]], [["el", "-"]], [["el", ":"]], [["el", "_"]], [["el", "$"]], [["el", "w"]], [["el", "n"]],
    [["el", "?"]], [["el", ","]], [["el", "W"]], [["el", "›"]], [["el", "†"]], [["el", "ɾ"]],
    [["if", [[["num", 1]], [["num", 2]]]]],
    [["if", [[["el", "n"]]]]],
    [["for", None, [["el", "n"]]]],
    [["for", None, [["brk"]]]],
    [["for", "a", [["vget", "a"], ["el", "d"]]]],
    [["while", [["el", ":"]], [["el", "‹"]]]],
    [["lam", None, [["el", "+"]]]],
    [["lam", 2, [["el", "n"]]]],
    [["map", [["el", "›"]]]],
    [["filter", [["el", "n"]]]],
    [["sort", [["el", "N"]]]],
    [["list", [[["el", "n"]], [["el", "!"]]]]],
    [["mod", "v", [["el", "›"]]]],
    [["mod", "ƒ", [["el", "+"]]]],
    [["mod", "₌", [["el", "+"], ["el", "-"]]]],
    [["mod", "ß", [["lam", 0, [["num", 7]]]]]],
    [["def", "f", [1], [["el", "n"]]]],
    [["call", "f"]],
]
EXH_INPUTS = [[], [5], [[1, 2], 3]]


def units(tier, seed):
    n_units = 320 if tier == "quick" else 12000
    per = 120
    u = [{"kind": "random", "seed": seed, "idx": i, "n": per} for i in range(n_units)]
    L = 2 if tier == "quick" else 3
    for first in range(len(EXH)):
        u.append({"kind": "exh", "first": first, "len": L})
    return u


def setup_worker():
    from lib import structrun

    structrun.install()


def gen_case(rnd, cfg=None):
    from lib.gen import struct as G

    if cfg is None:
        # X / x after a modifier in the same body is a known finding; generate it in 5% of programs only
        cfg = G.Cfg(allow_modtail=rnd.random() < 0.05)
    prog = G.gen_program(rnd, cfg)
    k = rnd.choice([0, 0, 1, 1, 2, 3])
    inputs = []
    for _ in range(k):
        if rnd.random() < 0.7:
            inputs.append(rnd.randint(0, 9))
        else:
            inputs.append([rnd.randint(0, 5) for _ in range(rnd.randint(0, 3))])
    flags = rnd.choice(FLAGSETS)
    return prog, inputs, flags


def model_run(prog, inputs, flags, binds, quirk=False):
    from lib.models.structure import Model, Skip

    m = Model(inputs=inputs, flags=flags, if_binds_n=binds, quirk_modtail=quirk)
    try:
        m.run_program(prog)
    except Skip as s:
        return None, s.reason
    except RecursionError:
        return None, "model-recursion"
    return {"stack": m.final_stack, "out": "".join(m.out), "reads": m.reads, "trace": m.top_trace}, None


def shape_of_model_stack(st):
    out = ""
    for v in st:
        if isinstance(v, list):
            out += "L"
        elif isinstance(v, dict):
            out += "f"
        else:
            out += "n"
    return out


def trace_mismatch(expect, got, flags):
    """M-LINE trace oracle: the stack shapes the model predicts after each top-level
    statement must occur, in order, among the shapes observed at the implementation's
    top-level statement boundaries (which are a refinement). Returns None if so."""
    shapes = got.get("shapes")
    if not shapes:
        return None
    want = ["n" if "H" in flags else ""] + [shape_of_model_stack(t) for t in expect["trace"][:-1]]
    dedup = []
    for w in want:
        if not dedup or dedup[-1] != w:
            dedup.append(w)
    i = 0
    for sh in shapes:
        if i < len(dedup) and sh == dedup[i]:
            i += 1
    if i < len(dedup):
        return f"stack shape {dedup[i]!r} predicted after top-level statement #{i} never observed in order; observed {shapes[:12]!r}"
    return None


def compare(expect, got, flags=None):
    """Returns None when equal, else a short description."""
    if got["error"]:
        return f"implementation raised {got['error']}"
    if got["final_stack"] != expect["stack"]:
        return f"final stack {got['final_stack']!r} != model {expect['stack']!r}"
    if got["stdout"] != expect["out"]:
        return f"stdout {got['stdout']!r} != model {expect['out']!r}"
    if flags is not None:
        t = trace_mismatch(expect, got, flags)
        if t:
            return "trace: " + t
    return None


def check_case(prog, inputs, flags, res):
    from lib import structrun
    from lib.gen import struct as G

    c = res["counters"]
    text, toks = G.serialise(prog)
    from vyxal.lexer import tokenise

    if not G.check_tokens(text, toks, tokenise):
        c["generator_token_mismatch"] = c.get("generator_token_mismatch", 0) + 1
        return
    e0, why = model_run(prog, inputs, flags, False)
    if e0 is None:
        res["skips"][why] = res["skips"].get(why, 0) + 1
        return
    e1, why1 = model_run(prog, inputs, flags, True)
    ambiguous = e1 is None or e1 != e0
    got = structrun.run_impl(text, [repr(x) for x in inputs], flags, line_monitor=True)
    feats = features(prog, set())
    modtail = "brk-after-modifier" in feats or "rec-after-modifier" in feats
    if got["error"] == "watchdog" and modtail:
        q, qwhy = model_run(prog, inputs, flags, False, quirk=True)
        if q is None and qwhy == "fuel":
            # the known-finding semantics predict non-termination, the documented ones terminate
            res["evals"] += 1
            c["compared"] = c.get("compared", 0) + 1
            res["violations"].append({
                "mechanism": "break-after-modifier-ignored",
                "what": f"program {text!r} inputs={inputs} flags={flags!r}: does not terminate; the model terminates, "
                        "and the model with 'X after a modifier is a no-op' does not",
                "unit": {"kind": "one", "prog": prog, "inputs": inputs, "flags": flags},
                "program": text,
            })
            return
    if got["error"] in ("watchdog", "MemoryError", "RecursionError"):
        # resource limits of the host interpreter, not a statement about the program
        res["inconclusive"].append({"why": got["error"], "program": text, "inputs": inputs, "flags": flags})
        return
    if isinstance(got["final_stack"], dict):
        res["inconclusive"].append({"why": "final stack " + str(got["final_stack"]), "program": text})
        return
    if got["probe_calls"] == 0 or got["final_stack"] is None:
        c["exec_probe_missed"] = c.get("exec_probe_missed", 0) + 1
        if not got["error"]:
            res["inconclusive"].append({"why": "exec probe saw nothing", "program": text})
            return
    else:
        c["exec_probe_hits"] = c.get("exec_probe_hits", 0) + 1
    res["evals"] += 1
    c["compared"] = c.get("compared", 0) + 1
    if G.has_structure(prog):
        res["keys"].append(harness.short_hash([text, inputs, flags]))
    for tag in node_tags(prog, set()):
        c["uses:" + tag] = c.get("uses:" + tag, 0) + 1
    d0 = compare(e0, got, flags)
    if got.get("shapes"):
        c["trace_boundaries_observed"] = c.get("trace_boundaries_observed", 0) + len(got["shapes"])
    verdict = None
    if d0 is None:
        if ambiguous:
            c["n_in_if:matches_unbound_reading"] = c.get("n_in_if:matches_unbound_reading", 0) + 1
    else:
        if ambiguous and e1 is not None and compare(e1, got, flags) is None:
            c["n_in_if:matches_bound_reading"] = c.get("n_in_if:matches_bound_reading", 0) + 1
        else:
            verdict = d0
    if len(res["samples"]) < 3:
        res["samples"].append({"program": text, "inputs": inputs, "flags": flags,
                               "model_stack": e0["stack"], "impl_stack": got["final_stack"],
                               "stdout": got["stdout"][:80]})
    if verdict and modtail:
        q, qwhy = model_run(prog, inputs, flags, False, quirk=True)
        if q is not None and compare(q, got) is None:
            verdict = verdict + " [matches the model in which X after a modifier is a no-op]"
            modtail = "confirmed"
        elif q is None:
            # with the known finding in effect the program leaves what the documents determine
            # (the reference model skips it): no expectation can be stated for this program
            res["skips"]["known-finding-makes-program-undetermined:" + str(qwhy)] = \
                res["skips"].get("known-finding-makes-program-undetermined:" + str(qwhy), 0) + 1
            c["compared"] -= 1
            res["evals"] -= 1
            return
    if verdict:
        w = {
            "mechanism": "break-after-modifier-ignored" if modtail == "confirmed" else mechanism(prog, verdict),
            "what": f"program {text!r} inputs={inputs} flags={flags!r}: {verdict}"[:600],
            "unit": {"kind": "one", "prog": prog, "inputs": inputs, "flags": flags},
            "program": text,
            "python": (got.get("code") or "")[:3000],
        }
        if len(res["violations"]) < 20:
            res["violations"].append(w)
        else:
            c["violations_not_listed"] = c.get("violations_not_listed", 0) + 1


def features(body, acc, after_mod=False, parent=None):
    """Static features of a program used to key known findings by mechanism."""
    seen_mod = after_mod
    for node in body:
        k = node[0]
        if k == "brk":
            acc.add("brk-in-" + str(parent))
            if seen_mod:
                acc.add("brk-after-modifier")
        elif k == "rec":
            acc.add("rec-in-" + str(parent))
            if seen_mod:
                acc.add("rec-after-modifier")
        elif k == "if":
            for b in node[1]:
                features(b, acc, seen_mod, parent or "if")
        elif k == "list":
            for b in node[1]:
                features(b, acc, seen_mod, parent or "list")
        elif k == "for":
            features(node[2], acc, False, "for")
        elif k == "while":
            features(node[1] or [], acc, False, "while")
            features(node[2], acc, False, "while")
        elif k == "lam":
            features(node[2], acc, False, "lam")
        elif k in ("map", "filter", "sort"):
            features(node[1], acc, False, "lambda-op")
        elif k == "def":
            features(node[3], acc, False, "def")
        elif k == "mod":
            for o in node[2]:
                features([o], acc, False, "mod")
            seen_mod = True
        elif k == "el" and node[1] == "n":
            acc.add("n")
    return acc


def node_tags(body, acc):
    """Which elements / structure kinds / modifiers a compared program contains (evidence only)."""
    for node in body:
        k = node[0]
        if k == "el":
            acc.add(node[1])
        elif k == "mod":
            acc.add("mod" + node[1])
            node_tags(node[2], acc)
        elif k in ("num", "vset", "vget", "brk", "rec", "call", "probe_exec"):
            acc.add(k)
        else:
            acc.add(k)
            if k in ("if", "list"):
                for b in node[1]:
                    node_tags(b, acc)
            elif k == "for":
                node_tags(node[2], acc)
            elif k == "while":
                node_tags(node[1] or [], acc)
                node_tags(node[2], acc)
            elif k == "lam":
                node_tags(node[2], acc)
            elif k in ("map", "filter", "sort"):
                node_tags(node[1], acc)
            elif k == "def":
                node_tags(node[3], acc)
    return acc


def mechanism(prog, verdict):
    f = features(prog, set())
    tags = sorted(t for t in f if t.startswith(("brk", "rec")))
    return "diverge:" + ("raise" if verdict.startswith("implementation raised") else "value") + (":" + ",".join(tags) if tags else "")


def run_unit(unit):
    res = {"evals": 0, "keys": [], "violations": [], "inconclusive": [], "skips": {}, "counters": {}, "samples": []}
    if unit["kind"] == "one":
        check_case(unit["prog"], unit["inputs"], unit["flags"], res)
        return res
    if unit["kind"] == "exh":
        import itertools

        n = 0
        for L in range(1, unit["len"] + 1):
            for tail in itertools.product(range(len(EXH)), repeat=L - 1):
                prog = list(EXH[unit["first"]])
                for i in tail:
                    prog = prog + EXH[i]
                for inputs in EXH_INPUTS:
                    n += 1
                    check_case(prog, inputs, "", res)
        res["counters"]["exhaustive_programs"] = n
        return res
    rnd = random.Random(f"C01/{unit['seed']}/{unit['idx']}")
    for j in range(unit["n"]):
        prog, inputs, flags = gen_case(rnd)
        if "only" in unit and unit["only"] != j:
            continue
        res["counters"]["generated"] = res["counters"].get("generated", 0) + 1
        check_case(prog, inputs, flags, res)
    return res


def split_unit(unit):
    if unit.get("kind") == "random" and "only" not in unit:
        return [dict(unit, only=j) for j in range(unit["n"])]
    return None


def classify(w):
    if w.get("mechanism") == "break-after-modifier-ignored":
        return "C01-break-after-modifier-ignored"
    return None


def finalize(agg, tier):
    c = agg["counters"]
    out = {"programs": len(agg["keys"]), "disagreements_checked": len(agg["violations"])}
    if c.get("n_in_if:matches_bound_reading", 0) and c.get("n_in_if:matches_unbound_reading", 0):
        out["mixed_if_context_readings"] = True
    return out
