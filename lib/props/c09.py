"""C09 -- an element touches only the stack entries it consumes.

Every key of the element table, and every modifier applied to elements, is
executed through program text (lexer, parser, transpiler, table) on

    stack = [unique list, string, large int] + arity-many G-val arguments

Deciding oracle (public observable: the final stack): after a normally
completed execution the stack still has at least three entries and the first
three are the *same objects* with the same value (structural snapshot taken
before). Secondary monitor (M-FRAME on the popping helper, no wrapper): a pop
request on the main stack that reaches below the sentinel line -- the statement
says only the documented whole-stack operations "may reach further down".

Exempt by key: W ^ ! „ ‟ Ȯ † ¨ẇ Ė and the modifier ß (documented whole-stack
operations / call); printing a function value (it is called). An execution that
raises, exits or runs into the watchdog makes no claim."""
from __future__ import annotations

ID = "C09"
LEVEL = "exploration"
DESIGN_REF = "DESIGN.md §1 C09"
RULE = (
    "one case = (program, argument specs): program is a table key, or a modifier applied to table keys; "
    "arguments are arity-many G-val values (ints, rationals, strings, nested / lazy lists, lambdas) on top of "
    "three sentinels; history cases run one of 17 producer programs first (copies of the global array, register, "
    "variables, inputs, duplicates, lazy and infinite lists) and then every key on fresh arguments, or on a duplicate "
    "of the produced entry, above what the producer left: those entries must be the same objects and read the same as "
    "when the producer runs alone. Only normally completed executions are evaluated. distinct_nontrivial = distinct "
    "(program, argument-shape tuple) pairs that completed and whose program is not exempt."
)
ASSUMPTIONS = [
    "the pop monitor is attached to helpers.pop by name (feature-detected; 'unavailable' is reported, not failed)",
    "an execution that raises / exits / exceeds the 3 s watchdog makes no claim (statement: executing an element ... leaves)",
    "keys with < 10 completed executions are listed under inconclusive_keys (clock / exit / elements that need "
    "operands the generator does not produce); the run is inconclusive if fewer keys than the threshold are conclusive",
]
MIN_COUNTERS = {
    "keys_conclusive": {"quick": 340, "thorough": 340},
    "prefix_checked": {"quick": 4000, "thorough": 60000},
    "modifier_pairs_completed": {"quick": 1000, "thorough": 1000},
    "shared_row_entries_checked": {"quick": 300, "thorough": 3000},
    "call_as_monad_checked": {"quick": 5, "thorough": 50},
    "history_prefix_checked": {"quick": 8000, "thorough": 50000},
    "lazy_vs_eager_height_compared": {"quick": 1500, "thorough": 20000},
}
MAX_INCONCLUSIVE_ABS = 5
UNIT_TIMEOUT = 900

NEED = 10          # completed executions per key
TUPLES = {"quick": 40, "thorough": 800}
MOD_TUPLES = {"quick": 2, "thorough": 24}
KEYS_PER_MOD_UNIT = 12

_pop_guard = None
_pop_status = "unavailable"


def _all_keys():
    from lib import env

    env.bind()
    from vyxal import elements as E

    return list(E.elements)


def units(tier, seed):
    keys = _all_keys()
    u = [{"kind": "key", "key": k, "n": TUPLES[tier], "seed": seed} for k in keys]
    for i in range(0, len(keys), KEYS_PER_MOD_UNIT):
        u.append({"kind": "mod", "keys": keys[i:i + KEYS_PER_MOD_UNIT], "n": MOD_TUPLES[tier], "seed": seed})
    for i in range(0, len(keys), KEYS_PER_MOD_UNIT):
        u.append({"kind": "history", "keys": keys[i:i + KEYS_PER_MOD_UNIT], "n": 2 if tier == "quick" else 12, "seed": seed})
    return u


def setup_worker():
    global _pop_guard, _pop_status
    from lib.monitors import frame

    if not frame.available():
        _pop_status = "unavailable: no sys.monitoring"
        return
    from vyxal import helpers

    fn = getattr(helpers, "pop", None)
    code = getattr(fn, "__code__", None)
    if code is None or code.co_argcount < 2:
        _pop_status = "unavailable: helpers.pop not found"
        return
    _pop_guard = frame.PopGuard()
    frame.watch([fn], _pop_guard)
    _pop_status = "attached"


def _eager_view(v, depth=0):
    """Value of the eager part of a structure; a lazy list inside is represented by its identity only
    (its cache may legitimately grow when somebody reads it)."""
    if type(v) is list and depth < 12:
        return [_eager_view(x, depth + 1) for x in v]
    if type(v).__name__ == "LazyList":
        return ("lazy-list-object", id(v))
    if callable(v):
        return ("function", id(v))
    return repr(v)


# entries left below by earlier steps of the same program (not planted by the harness): copies of the
# global array, the register, variables, inputs, duplicates, lazily produced and infinite lists
PRODUCERS = ["¾", "7⅛⟨8|9⟩⅛¾", "9£¥", "⟨1|⟨2|3⟩⟩→a ←a", "⟨1|⟨2|3⟩⟩:", "5ɾ", "5ɾƛ1+;", "6ʀ'2>;", "`ab`:", "??",
             "1 2\"", "Þ∞", "4ɾ:ƛd;", "⟨⟨1|2⟩|⟨3⟩⟩vṘ", "λ1+;", "3ɾ¾J", "kH ⟨⟩"]
_CONTROL = {}


def _bounded_view(v, width=12, depth=4):
    """What a program could read from an entry: first `width` items, `depth` levels; lazy and eager
    lists read alike."""
    import itertools

    t = type(v)
    if t is list or t.__name__ == "LazyList":
        if depth <= 0:
            return "..."
        return [_bounded_view(x, width, depth - 1) for x in itertools.islice(iter(v), width)]
    if callable(v):
        return "function"
    return repr(v)


def _control(producer):
    """The producer run alone: how many entries it leaves and what they read as."""
    from lib.gen import elemcases as ec

    if producer not in _CONTROL:
        run = ec.execute([producer], ec.make_sentinels())
        if not run.completed or type(run.stack) is not list or len(run.stack) <= 3:
            _CONTROL[producer] = None
        else:
            try:
                _CONTROL[producer] = [_bounded_view(x) for x in run.stack[3:]]
            except Exception:  # noqa
                _CONTROL[producer] = None
    return _CONTROL[producer]


def run_history_case(producer, key, specs, res, variant="fresh"):
    """`producer` runs first and leaves entries; then `key` runs on fresh arguments pushed above them
    (variant 'fresh'), or on a duplicate of the produced top entry (variant 'dup': `:` then the key,
    further arguments fresh). The produced entries must still be the same objects and read the same
    as when the producer runs alone."""
    from lib import values
    from lib.gen import elemcases as ec

    c = res["counters"]
    control = _control(producer)
    if control is None:
        res["skips"]["producer_control_failed"] = res["skips"].get("producer_control_failed", 0) + 1
        return "nocontrol"
    try:
        args = [values.from_spec(s) for s in specs]
    except Exception:  # noqa
        return "nobuild"
    seen = {}

    def between(i, run):
        if i == 0:
            st = run.ns["stack"]
            seen["produced"] = list(st[3:])
            if variant == "dup":
                st.append(run.ns["deep_copy"](st[-1]) if "deep_copy" in run.ns else st[-1])
            st.extend(args)

    first = producer
    run = ec.execute([first, key], ec.make_sentinels(), between=between)
    if not run.completed:
        res["skips"][run.why] = res["skips"].get(run.why, 0) + 1
        return run.why
    if key in ec.WHOLE_STACK_KEYS or (key in ec.PRINT_KEYS and any(ec.has_fn(s) for s in specs)):
        return "completed"
    produced = seen.get("produced", [])
    st = run.stack
    res["evals"] += 1
    c["history_prefix_checked"] = c.get("history_prefix_checked", 0) + 1
    problem = None
    if type(st) is not list or len(st) < 3 + len(produced):
        problem = ("history_prefix_lost", f"{len(produced)} entries were below the arguments, final stack has "
                   f"{len(st) if type(st) is list else '?'} entries")
    else:
        for i, obj in enumerate(produced):
            if st[3 + i] is not obj:
                problem = ("history_prefix_replaced", f"produced entry {i} is no longer the same object")
                break
        if problem is None:
            try:
                now = [_bounded_view(x) for x in produced]
            except Exception as e:  # noqa
                now = f"reading raised {type(e).__name__}"
            if now != control:
                problem = ("history_prefix_value_changed", f"entries produced by {producer!r} read {control!r} when the "
                           f"producer runs alone and {now!r} after {key!r} ran above them")
    if problem and len(res["violations"]) < 20:
        res["violations"].append({
            "mechanism": problem[0], "subject": key, "case_kind": "history",
            "what": f"program {producer + ' ' + key!r} ({variant} arguments {specs!r}): {problem[1]}",
            "unit": {"kind": "hcase", "producer": producer, "key": key, "specs": specs, "variant": variant},
        })
    return "completed"


def _eagerised(spec):
    if isinstance(spec, dict) and "lazy" in spec:
        return [_eagerised(x) for x in spec["lazy"]]
    if isinstance(spec, list):
        return [_eagerised(x) for x in spec]
    return spec


def _exempt(kind, program, specs, mod=None):
    from lib.gen import elemcases as ec

    if kind == "key":
        if program == "†" and specs and not ec.has_fn(specs[-1]) and not isinstance(specs[-1], str):
            # the call element applied to a number or a list is an ordinary monad (documented overloads:
            # count of prime factors / vectorised not): it consumes one entry and leaves one result
            return None
        if program in ec.WHOLE_STACK_KEYS:
            return "whole_stack_operation"
        if program in ec.PRINT_KEYS and any(ec.has_fn(s) for s in specs):
            return "prints_function"
        return None
    if mod in ec.WHOLE_STACK_MODIFIERS:
        return "whole_stack_operation"
    return None


def run_case(program, specs, res, kind="key", mod=None, replay_unit=None):
    """Execute one case and apply the oracle. Returns 'completed' / why."""
    from lib import values
    from lib.gen import elemcases as ec
    from lib.gen import values as gv
    from lib.harness import short_hash
    from lib.monitors import frame

    c = res["counters"]
    try:
        args = [values.from_spec(s) for s in specs]
    except Exception:  # noqa
        res["skips"]["argument_not_buildable"] = res["skips"].get("argument_not_buildable", 0) + 1
        return "nobuild"
    sent = ec.make_sentinels()
    snapshot = ec.sentinel_snapshot()
    # hostile lower entry: a list that *shares its rows* with an argument (what `:` leaves behind:
    # the duplicate of a nested list is a shallow view). It is below everything the element consumes.
    shadow = None
    for a, sp in zip(args, specs):
        if type(a) is list and isinstance(sp, list) and any(type(x) is list for x in a):
            shadow = list(a)
            break
    lower = sent + ([shadow] if shadow is not None else [])
    shadow_before = _eager_view(shadow) if shadow is not None else None
    stack = lower + args
    frame.reset()
    if _pop_guard is not None:
        _pop_guard.begin_case(stack, len(lower))
    run = ec.execute([program], stack)
    if _pop_guard is not None:
        pops = list(_pop_guard.events)
        _pop_guard.begin_case(None, 0)
    else:
        pops = []
    if not run.completed:
        res["skips"][run.why] = res["skips"].get(run.why, 0) + 1
        return run.why
    ex = _exempt(kind, program, specs, mod)
    if ex:
        res["skips"]["exempt_" + ex] = res["skips"].get("exempt_" + ex, 0) + 1
        return "completed"
    res["evals"] += 1
    c["prefix_checked"] = c.get("prefix_checked", 0) + 1
    shapes = [gv.shape_of(s) for s in specs]
    res["keys"].append(short_hash([program, shapes]))
    st = run.stack
    unit = replay_unit or {"kind": "case", "program": program, "specs": specs, "case_kind": kind, "mod": mod}
    subject = mod if kind == "mod" else program
    problems = []
    if type(st) is not list or len(st) < 3:
        problems.append(("prefix_lost", f"final stack has {len(st) if hasattr(st, '__len__') else '?'} entries"))
    else:
        for i in range(3):
            if st[i] is not sent[i]:
                problems.append(("prefix_replaced", f"entry {i} is no longer the sentinel object: {frame.render(st[i])!r}"))
                break
            if frame.render(st[i]) != snapshot[i]:
                problems.append(("prefix_mutated", f"sentinel {i} now reads {frame.render(st[i])!r}"))
                break
    if not problems and shadow is not None:
        c["shared_row_entries_checked"] = c.get("shared_row_entries_checked", 0) + 1
        if len(st) < 4 or st[3] is not shadow:
            problems.append(("prefix_replaced", "the lower entry sharing rows with an argument is no longer there"))
        elif _eager_view(shadow) != shadow_before:
            problems.append(("lower_entry_value_changed", f"a lower entry sharing rows with an argument read {shadow_before!r} "
                             f"before and reads {_eager_view(shadow)!r} after"))
    if not problems and kind == "key" and program == "†":
        c["call_as_monad_checked"] = c.get("call_as_monad_checked", 0) + 1
        if len(st) != len(lower) + len(args):
            problems.append(("result_count", f"† on a non-function consumed one entry and left {len(st) - len(lower) - len(args) + 1} results "
                             f"(stack height {len(st)}, expected {len(lower) + len(args)})"))
    if not problems and kind == "key" and type(st) is list and any(ec.spec_is_lazy(sp) for sp in specs):
        # how many entries an element consumes and leaves is documented per argument *type*; a list handed
        # over lazily is the same type, so the same arguments with every lazy list made eager must leave a
        # stack of the same height
        eager_specs = [_eagerised(sp) for sp in specs]
        try:
            eargs = [values.from_spec(sp) for sp in eager_specs]
        except Exception:  # noqa
            eargs = None
        if eargs is not None:
            erun = ec.execute([program], ec.make_sentinels() + eargs)
            if erun.completed and type(erun.stack) is list:
                c["lazy_vs_eager_height_compared"] = c.get("lazy_vs_eager_height_compared", 0) + 1
                want = len(erun.stack) + (1 if shadow is not None else 0)
                if len(st) != want:
                    problems.append(("stack_effect_depends_on_laziness",
                                     f"final stack has {len(st) - len(lower)} entries above the prefix; with the same arguments as plain "
                                     f"lists it has {len(erun.stack) - 3}"))
    if pops:
        p = pops[0]
        problems.append(("pop_below_line", f"pop of {p['count']} requested with {p['stack_len']} entries on the stack "
                         f"(3 protected) from {p['caller']}"))
    if problems and len(res["violations"]) < 20:
        mech, detail = problems[0]
        res["violations"].append({
            "mechanism": mech,
            "subject": subject,
            "case_kind": kind,
            "what": f"program {program!r} on sentinels + {specs!r}: {detail}",
            "all": [list(p) for p in problems],
            "final_stack": frame.render(st) if type(st) is list else repr(st)[:200],
            "unit": unit,
        })
    elif problems:
        c["violations_not_listed"] = c.get("violations_not_listed", 0) + 1
    if len(res["samples"]) < 2:
        res["samples"].append({"program": program, "args": specs,
                               "final_stack_tail": frame.render(st[3:]) if type(st) is list else None})
    return "completed"


def _new_res():
    return {"evals": 0, "keys": [], "violations": [], "inconclusive": [], "skips": {}, "counters": {}, "samples": []}


def run_unit(unit):
    from lib.gen import elemcases as ec

    res = _new_res()
    c = res["counters"]
    kind = unit["kind"]
    if _pop_guard is not None:
        before_main = _pop_guard.calls_on_main
    if kind == "case":
        run_case(unit["program"], unit["specs"], res, unit.get("case_kind", "key"), unit.get("mod"))
    elif kind == "key":
        key = unit["key"]
        table = ec.element_table()
        arity = max(0, int(table[key][1]))
        r = ec.rng_for("C09", unit["seed"], key)
        sampler = ec.ArgSampler(r, arity)
        done = tries = dogs = 0
        limit = unit["n"]
        hard = max(120, int(1.5 * unit["n"]))
        while tries < limit or (done < NEED and tries < hard):
            tries += 1
            cats, specs = sampler.next()
            why = run_case(key, specs, res)
            if why == "completed":
                done += 1
                sampler.completed(cats)
            elif why in ("watchdog", "memory"):
                dogs += 1
                if dogs >= 6:
                    break
            if arity == 0 and tries >= max(NEED, limit // 4):
                break  # niladic: the argument tuple is always empty
        c["completed:" + key] = done
        if key in ec.WHOLE_STACK_KEYS:
            c["keys_exempt"] = 1
        elif done >= NEED:
            c["keys_conclusive"] = 1
        else:
            c["keys_inconclusive"] = 1
    elif kind == "hcase":
        run_history_case(unit["producer"], unit["key"], unit["specs"], res, unit.get("variant", "fresh"))
    elif kind == "history":
        table = ec.element_table()
        for key in unit["keys"]:
            arity = max(0, int(table[key][1]))
            r = ec.rng_for("C09hist", unit["seed"], key)
            for producer in PRODUCERS:
                sampler = ec.ArgSampler(r, arity, explore=1)
                for _ in range(unit["n"]):
                    cats, specs = sampler.next()
                    if run_history_case(producer, key, specs, res, "fresh") == "completed":
                        sampler.completed(cats)
                if arity >= 1:
                    sampler = ec.ArgSampler(r, arity - 1, explore=1)
                    for _ in range(unit["n"]):
                        cats, specs = sampler.next()
                        run_history_case(producer, key, specs, res, "dup")
    elif kind == "mod":
        table = ec.element_table()
        keys = list(table)
        for key in unit["keys"]:
            r = ec.rng_for("C09mod", unit["seed"], key)
            for mod, program, nargs, _operands in ec.modifier_programs(r, key, keys):
                if not ec.modifier_shape_ok(mod, program):
                    res["skips"]["generator_selfcheck"] = res["skips"].get("generator_selfcheck", 0) + 1
                    continue
                sampler = ec.ArgSampler(r, nargs, explore=1)
                ok = 0
                for _ in range(unit["n"]):
                    cats, specs = sampler.next()
                    why = run_case(program, specs, res, "mod", mod)
                    if why == "completed":
                        ok += 1
                        sampler.completed(cats)
                c["modifier_runs_completed:" + mod] = c.get("modifier_runs_completed:" + mod, 0) + ok
                if ok:
                    c["modifier_pairs_completed"] = c.get("modifier_pairs_completed", 0) + 1
                else:
                    c["modifier_pairs_never_completed"] = c.get("modifier_pairs_never_completed", 0) + 1
    if _pop_guard is not None:
        seen = _pop_guard.calls_on_main - before_main
        c["pop_monitor_calls_on_main_stack"] = seen
        if seen == 0 and c.get("prefix_checked", 0) >= 20 and kind == "mod":
            res["inconclusive"].append({"why": "pop monitor attached but saw no pop on the main stack", "unit": unit})
    c["pop_monitor_" + _pop_status.split(":")[0]] = 1
    return res


def classify(w):
    m = w.get("mechanism")
    s = w.get("subject")
    if m and s:
        return f"C09-{s}-{m}"
    return None


def finalize(agg, tier):
    cs = agg["counters"]
    low = sorted(k.split(":", 1)[1] for k, v in cs.items() if k.startswith("completed:") and v < NEED)
    return {
        "inconclusive_keys": low,
        "keys_total": sum(1 for k in cs if k.startswith("completed:")),
        "pop_monitor": "attached" if cs.get("pop_monitor_attached") else "unavailable",
        "exhaustive": False,
    }
