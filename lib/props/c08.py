"""C08 — vectorising elements act element-wise.

Self-referential law, decided on executions of the real element table reached
through program text (`env.run_text(key, stack=[...])`, so lexer, parser,
transpiler, `pop`, the overload table and `vectorise`/`vy_zip` are in the loop):

    monad   f(L)      == [ f(x)      for x in L ]
    dyad    f(L, s)   == [ f(x, s)   for x in L ]                 (list-scalar)
            f(s, L)   == [ f(s, y)   for y in L ]                 (scalar-list)
            f(L, R)   == [ f(x, y)   for x, y in zip0(L, R) ]     (list-list,
                         the shorter side filled with 0, as the documented `Z`)

applied recursively until every argument is a scalar, and identically when any
of the lists is handed over as a LazyList. The right-hand side is built only
from applications of the *same element to scalars through the same program
path*; the oracle has no opinion about what the element computes.

The set of elements, their argument domains and the exclusions are committed
data (`data/c08_vectorising.json`), never derived from behaviour at run time.

Comparison: `_norm` (= lib.values.canon_loose plus the same `nsimplify(...,
rational=True)` for non-rational sympy values). Why loose is right here: the
list path hands every item through `LazyList.__next__ -> vyxalify`, which turns
a Python float / sympy Float into the rational of its decimal repr, while the
scalar path returns the float untouched; C08 speaks about *which results*, not
about float-vs-rational (that is C07), so both sides are pushed through that
one conversion. Everything else stays exact and typed: 1 vs "1", 0 vs [], a
scalar vs a one-item list, None, bool and map objects are all distinct.
The eager-vs-lazy comparison of two list-path results uses the same loose
form; a strict `canon` difference between them is only counted
(`strict_eager_lazy_diff`), because it can only be float-vs-rational again.
"""
from __future__ import annotations

import json
import os
import random

ID = "C08"
LEVEL = "exploration"
DESIGN_REF = "DESIGN.md §1 C08"
RULE = (
    "per curated element and shape (monad: L; dyad: LS list-scalar, SL scalar-list, LLeq / LLne "
    "list-list of equal / unequal length) random argument sets from the element's committed domain "
    "(ints, rationals, short strings; lists nested <= 3, length <= 5); every set is executed with eager "
    "lists and again with LazyLists (top level, all levels or inner levels only), and compared with the "
    "list built from the same element applied to the paired scalars; where that held, a third run hands the "
    "lists through a producer element (uniquify / map / filter / flatten / slice / reverse) inside the program so "
    "the element meets lazy lists as real programs make them. As many sets again are drawn with the domain's "
    "value restrictions lifted (zero divisors, empty strings, negative counts; 30 % edge values): those on which a "
    "scalar application raises are skipped and counted, the rest are held to the same law. distinct_nontrivial = distinct "
    "(element, shape, eager|lazy|produced placement, argument spec) tuples that were conclusive (all scalar "
    "applications returned) and contained at least one scalar pair (empty lists alone do not count)."
)
ASSUMPTIONS = [
    "elements.yaml is read by a line-based subset parser (no yaml library offline); it is used only to "
    "cross-check that the committed table accounts for every `vectorise: true` entry",
    "results are compared after the float->rational conversion the implementation's own vyxalify applies "
    "inside lazy lists (C08 does not speak about float vs rational; C07 does)",
    "scalar applications are memoised per worker (the curated elements are deterministic; random-choice "
    "overloads are outside the committed domains)",
    "unequal list-list lengths: the shorter side is filled with 0, which is what the element Z (vy_zip) does and "
    "what documents/specs/Vectorisation.md refers to (`map(apply, vy_zip(left, right))`); the fill value is "
    "hard-coded in the oracle on purpose so that a truncating zip is a violation",
    "the M-FRAME ride-along of DESIGN is realised at program level (lists handed through producer elements inside "
    "the program), not with sys.monitoring on element function frames",
]
UNIT_TIMEOUT = 900
MAX_INCONCLUSIVE_FRAC = 0.02

NEED = 20  # conclusive cases required per (element, shape, eager|lazy)
CASES = {"quick": 60, "thorough": 600}   # conclusive argument sets per (element, shape)
CHUNK = {"quick": 20, "thorough": 60}    # per work unit
ATTEMPTS = 5

VERIF = os.path.dirname(os.path.dirname(os.path.dirname(os.path.abspath(__file__))))
TABLE_PATH = os.path.join(VERIF, "data", "c08_vectorising.json")

_table = None


def table():
    global _table
    if _table is None:
        with open(TABLE_PATH, encoding="utf-8") as f:
            _table = json.load(f)
    return _table


def included():
    return [e for e in table()["entries"] if e.get("include")]


def shapes_of(entry):
    if entry["arity"] == 1:
        return ["L"]
    sh = ["LS", "SL", "LLeq", "LLne"]
    return [s for s in sh if s not in entry.get("exclude_shapes", {})]


def cells():
    out = []
    for e in included():
        for s in shapes_of(e):
            for lz in ("E", "Z"):
                out.append((e["key"], s, lz))
    return out


# cells_with_20: every (element, shape, eager|lazy) cell of the committed table
# must reach NEED conclusive cases; it is a count of table cells, not a noisy
# event count, so the minimum is the table size itself (computed in finalize).
MIN_COUNTERS = {
    # unchanged tree: 19 200 / ~24 000 / 9 600 / ~9 300 in quick, ten times that in thorough
    # (scalar applications grow sub-linearly: they are memoised)
    "conclusive": {"quick": 3800, "thorough": 38000},
    "scalar_applications": {"quick": 3000, "thorough": 10000},
    "lazy_runs": {"quick": 1900, "thorough": 19000},
    "produced_runs": {"quick": 1500, "thorough": 15000},
    "table_entries_checked_against_yaml": 100,
}
try:
    MIN_COUNTERS["cells_with_20"] = len(cells())
except Exception:  # noqa  (table missing: the table unit reports it)
    MIN_COUNTERS["cells_with_20"] = 1


def units(tier, seed):
    n, ch = CASES[tier], CHUNK[tier]
    u = [{"kind": "table"}]
    for e in included():
        for s in shapes_of(e):
            for chunk in range(0, n, ch):
                u.append({"kind": "cases", "key": e["key"], "shape": s, "seed": seed,
                          "chunk": chunk // ch, "n": min(ch, n - chunk)})
    return u


def setup_worker():
    pass


# --------------------------------------------------------------------------
# argument generation (pure data specs; see lib/gen/values.py)

def _domain(name):
    d = table()["domains"].get(name)
    if d is None:
        raise KeyError(f"unknown domain {name!r}")
    return d


def _kinds(d, flavour):
    ks = []
    if d.get("ints") or d.get("int_range"):
        ks.append("int")
    if d.get("rats") and flavour != "norat":
        ks.append("rat")
    if d.get("strs") and flavour != "nostr":
        ks.append("str")
    if not ks:  # e.g. a string-only domain under 'nostr'
        ks = [k for k in ("int", "rat", "str") if d.get({"int": "ints", "rat": "rats", "str": "strs"}[k])]
    return ks


_EDGE = [False]


def gen_scalar(r, dom, flavour=None):
    d = _domain(dom)
    ks = _kinds(d, flavour)
    if _EDGE[0] and r.random() < 0.3:
        # relaxed-domain sets lean on the values the curated domains leave out
        edge = [v for v in (0, -1) if v in d.get("ints", ())] + [v for v in ("",) if v in d.get("strs", ()) and "str" in ks]
        if edge:
            return r.choice(edge)
    w = d.get("weights", {"int": 0.5, "rat": 0.2, "str": 0.3})
    kind = r.choices(ks, [w.get(k, 0.1) for k in ks])[0]
    if kind == "int":
        if "int_range" in d and (not d.get("ints") or r.random() < 0.4):
            lo, hi = d["int_range"]
            return r.randint(lo, hi)
        return r.choice(d["ints"])
    if kind == "rat":
        from math import gcd

        q = r.choice(d["rats"]["den"])
        lo, hi = d["rats"]["num"]
        p = r.randint(lo, hi)
        if p == 0 and d["rats"].get("nonzero"):
            p = 1
        g = gcd(p, q) or 1
        p, q = p // g, q // g
        return p if q == 1 else {"q": [p, q]}
    return r.choice(d["strs"])


def gen_list(r, dom, depth, n=None, maxlen=5, flavour=None):
    if n is None:
        n = r.randint(0, maxlen) if r.random() < 0.15 else r.randint(1, maxlen)
    items = []
    for _ in range(n):
        if depth > 1 and r.random() < 0.3:
            items.append(gen_list(r, dom, depth - 1, None, max(1, maxlen - 1), flavour))
        else:
            items.append(gen_scalar(r, dom, flavour))
    return items


def gen_case(r, entry, shape):
    """One argument set. When a domain offers both rationals and strings one
    case in five mixes them freely; the others use ints+strings or ints+rationals
    (most string overloads reject a rational count, which would only make the
    law unstatable for the whole case)."""
    doms = entry["domains"]
    alt = entry.get("shape_domains", {}).get(shape)
    if alt and r.random() < 0.5:
        doms = alt  # a wider domain that is sound for this shape only (committed with its reason in the table)
    fl = r.choices(["norat", "nostr", None], [0.45, 0.35, 0.2])[0]
    depth = r.choice([1, 1, 2, 2, 3])
    if shape == "L":
        return [gen_list(r, doms[0], depth, flavour=fl)]
    if shape == "LS":
        return [gen_list(r, doms[0], depth, flavour=fl), gen_scalar(r, doms[1], fl)]
    if shape == "SL":
        return [gen_scalar(r, doms[0], fl), gen_list(r, doms[1], depth, flavour=fl)]
    if shape == "LLeq":
        n = r.randint(1, 5)
        return [gen_list(r, doms[0], depth, n, flavour=fl),
                gen_list(r, doms[1], r.choice([1, depth]), n, flavour=fl)]
    if shape == "LLne":
        n = r.randint(0, 5)
        m = r.choice([k for k in range(0, 6) if k != n])
        return [gen_list(r, doms[0], depth, n, flavour=fl),
                gen_list(r, doms[1], r.choice([1, depth]), m, flavour=fl)]
    raise ValueError(shape)


def lazify(spec, mode, top=True):
    """eager spec -> spec with LazyLists: 'top' only the outer list(s), 'all'
    every list, 'inner' every list but the outer."""
    if not isinstance(spec, list):
        return spec
    inner_mode = {"top": "none", "all": "all", "inner": "all", "none": "none"}[mode]
    items = [lazify(x, inner_mode, False) for x in spec]
    make = mode in ("top", "all") if top else mode == "all"
    return {"lazy": items} if make else items


def has_leaf(x):
    """True when a (normalised) expected value contains at least one scalar
    application result, i.e. is not made of empty lists only."""
    if isinstance(x, list):
        return any(has_leaf(y) for y in x)
    return True


# --------------------------------------------------------------------------
# oracle

class Unstatable(Exception):
    def __init__(self, why):
        self.why = why


_scalar_cache = {}
_stats = {"scalar_applications": 0}


def _norm(v, limit=2000, _depth=0):
    """canon_loose + the vyxalify conversion for non-rational sympy values."""
    import sympy
    from lib.values import canon

    if isinstance(v, bool):
        return {"x": f"bool:{v}"}
    if isinstance(v, (float, complex)):
        try:
            return _norm(sympy.nsimplify(v, rational=True), limit, _depth + 1) if _depth < 3 else {"x": f"float:{v!r}"}
        except Exception:  # noqa
            return {"x": f"float:{v!r}"}
    if isinstance(v, sympy.Basic) and not isinstance(v, (sympy.Integer, sympy.Rational)):
        try:
            w = sympy.nsimplify(v, rational=True)
        except Exception:  # noqa
            w = v
        if isinstance(w, (sympy.Integer, sympy.Rational)) and not isinstance(v, (sympy.Integer, sympy.Rational)):
            return canon(w, limit)
        return {"x": f"sympy:{type(w).__name__}:{w}"[:300]}
    if isinstance(v, (list, tuple)) or type(v).__name__ == "LazyList":
        if _depth > 40:
            return {"x": "too-deep"}
        out = []
        for item in v:
            if len(out) >= limit:
                out.append({"x": "cut"})
                break
            out.append(_norm(item, limit, _depth + 1))
        return out
    return canon(v, limit)


def run_element(key, specs):
    """Fresh arguments, the element reached through program text. Returns
    ('ok', value) | ('raise', repr) — the value is *not* yet forced."""
    from lib import env
    from lib.values import from_spec

    stack = [from_spec(s) for s in specs]
    r = env.run_text(key, stack=stack)
    if r.error is not None:
        return "raise", f"{r.error[0]}:{type(r.error[1]).__name__}: {str(r.error[1])[:120]}"
    if len(r.stack) != 1:
        return "raise", f"stack has {len(r.stack)} entries after the element"
    return "ok", r.stack[-1]


def scalar_apply(key, specs):
    k = (key, json.dumps(specs, ensure_ascii=True))
    if k in _scalar_cache:
        hit = _scalar_cache[k]
    else:
        _stats["scalar_applications"] += 1
        st, v = run_element(key, specs)
        if st == "ok":
            try:
                hit = ("ok", _norm(v))
            except Exception as e:  # noqa  (a lazily produced scalar result that raises when read)
                hit = ("raise", f"forcing:{type(e).__name__}: {str(e)[:120]}")
        else:
            hit = ("raise", v)
        if len(_scalar_cache) < 200000:
            _scalar_cache[k] = hit
    if hit[0] != "ok":
        raise Unstatable(hit[1])
    return hit[1]


def expected(key, args):
    """The list of the element applied to the paired scalars (plain specs)."""
    isl = [isinstance(a, list) for a in args]
    if not any(isl):
        return scalar_apply(key, args)
    if len(args) == 1:
        return [expected(key, [x]) for x in args[0]]
    a, b = args
    if isl[0] and isl[1]:
        n = max(len(a), len(b))
        return [expected(key, [a[i] if i < len(a) else 0, b[i] if i < len(b) else 0]) for i in range(n)]
    if isl[0]:
        return [expected(key, [x, b]) for x in a]
    return [expected(key, [a, y]) for y in b]


def first_diff(exp, got, path=()):
    if isinstance(exp, list) and isinstance(got, list):
        for i, (x, y) in enumerate(zip(exp, got)):
            d = first_diff(x, y, path + (i,))
            if d:
                return d
        if len(exp) != len(got):
            return {"at": list(path), "expected_len": len(exp), "observed_len": len(got)}
        return None
    if exp != got:
        return {"at": list(path), "expected": exp, "observed": got}
    return None


def kind_of(exp, got):
    """Mechanism class of a divergence, by structure (never by value)."""
    if isinstance(exp, list) and not isinstance(got, list):
        if got == {"x": "None"}:
            return "returns-none"
        return "not-a-list"
    d = first_diff(exp, got)
    if d and "expected_len" in d:
        return "length"
    return "differs"


def observe(key, specs):
    """One list-path execution, forced. ('ok', norm, strict) | ('raise', text, None)."""
    from lib.values import canon

    st, v = run_element(key, specs)
    if st != "ok":
        return "raise", v, None
    try:
        return "ok", _norm(v), canon(v)
    except Exception as e:  # noqa
        return "raise", f"forcing:{type(e).__name__}: {str(e)[:120]}", None


def short(x, n=160):
    s = json.dumps(x, ensure_ascii=False, default=str)
    return s if len(s) <= n else s[: n - 3] + "..."


LAZY_MODES = ["top", "all", "inner"]
RELAXED = {"nzmix": "mix", "nz": "num", "pos": "num", "posint": "int", "nat": "int", "posmix": "mix",
           "posintmix": "intmix", "natmix": "intmix"}


def run_case(key, shape, args, lazy_mode, res, replay_unit):
    """Runs one argument set eagerly and lazily. Updates res; returns
    'held' | 'violated' | 'skipped' | 'inconclusive'."""
    from lib import harness
    from lib.worker import Watchdog, watchdog

    c = res["counters"]

    def bump(name, n=1):
        c[name] = c.get(name, 0) + n

    try:
        with watchdog(20):
            try:
                exp = expected(key, args)
            except Unstatable as u:
                res["skips"]["scalar_raises"] = res["skips"].get("scalar_raises", 0) + 1
                bump(f"skip:{key}:{shape}")
                return "skipped"
            nontrivial = has_leaf(exp)
            lazy_args = [lazify(a, lazy_mode) for a in args]
            if lazy_mode == "inner" and lazy_args == args:
                lazy_args = [lazify(a, "top") for a in args]
                lazy_mode = "top"
            outcomes = {}
            strict = {}
            for lz, specs in (("E", args), ("Z", lazy_args)):
                st, got, strict[lz] = observe(key, specs)
                res["evals"] += 1
                if lz == "Z":
                    bump("lazy_runs")
                outcomes[lz] = (st, got)
                bump("conclusive")
                bump(f"c:{key}:{shape}:{lz}")
                if nontrivial:
                    res["keys"].append(harness.short_hash([key, shape, lz, lazy_mode if lz == "Z" else "", specs]))
            bad = {}
            for lz, (st, got) in outcomes.items():
                if st == "raise":
                    bad[lz] = ("raises", got)
                elif got != exp:
                    bad[lz] = (kind_of(exp, got), got)
            if not bad and shape == "LLeq" and isinstance(args[0], list):
                # aliasing: both operands are the *same* not yet materialised lazy list (what `:` leaves:
                # a duplicate is a view of the original); pairing must still be position by position
                try:
                    exp2 = expected(key, [args[0], args[0]])
                    for how, prog in (("dup", ":" + key), ("same-object", None)):
                        from lib import env as _env
                        from lib.values import from_spec as _fs

                        obj = _fs(lazify(args[0], "top"))
                        if prog is None:
                            r2 = _env.run_text(key, stack=[obj, obj])
                        else:
                            r2 = _env.run_text(prog, stack=[obj])
                        bump("alias_runs")
                        if r2.error is not None or len(r2.stack) != 1:
                            got2 = "raise"
                        else:
                            try:
                                got2 = _norm(r2.stack[-1])
                            except Exception as e:  # noqa
                                got2 = "raise"
                        if got2 != exp2:
                            bad["Z"] = ("aliased-" + how + ("-raises" if got2 == "raise" else "-differs"), got2)
                            exp = exp2
                            lazy_args = [{"aliased": lazify(args[0], "top")}]
                            break
                except Unstatable:
                    pass
            if not bad:
                bump("held")
                bump("eager_equals_lazy")  # both equal the same expected value
                if strict["E"] != strict["Z"]:
                    bump("strict_eager_lazy_diff")  # float-vs-rational only; informational
                if len(res["samples"]) < 2 and nontrivial:
                    res["samples"].append({"element": key, "shape": shape, "args": args, "lazy_args": lazy_args,
                                           "result": outcomes["E"][1] if len(short(outcomes["E"][1], 10**6)) < 400 else "(long)"})
                return "held"
            # one witness per case; 'lazy'/'eager' suffix only when the other placement held
            if len(bad) == 2:
                which, lz = "", "E"
            else:
                lz = next(iter(bad))
                which = "-lazy" if lz == "Z" else "-eager"
            kind, got = bad[lz]
            mech = f"{key}|{shape}|{kind}{which}"
            bump("violations")
            bump(f"v:{mech}")
            if sum(1 for w in res["violations"] if w["mechanism"] == mech) >= 3 or len(res["violations"]) >= 20:
                bump("violations_not_listed")
                return "violated"
            specs = args if lz == "E" else lazy_args
            d = first_diff(exp, got) if kind != "raises" else None
            res["violations"].append({
                "mechanism": mech,
                "element": key, "shape": shape, "kind": kind, "placement": which.strip("-") or "both",
                "what": (f"element {key!r} shape {shape} on stack {short(specs)}: expected (same element on the paired "
                         f"scalars) {short(exp)}, observed {short(got)}"),
                "args": specs, "expected": exp if len(short(exp, 10**6)) < 2000 else "(long)",
                "observed": got if len(short(got, 10**6)) < 2000 else "(long)",
                "first_difference": d,
                "unit": dict(replay_unit),
            })
            return "violated"
    except Watchdog:
        res["inconclusive"].append({"why": "watchdog (20 s) in one case", "element": key, "shape": shape, "args": args})
    except (RecursionError, MemoryError) as e:
        res["inconclusive"].append({"why": type(e).__name__, "element": key, "shape": shape, "args": args})
    return "inconclusive"


# --------------------------------------------------------------------------
# ride-along: the same law on lazy lists *produced by real elements* (generator-,
# map- and filter-backed LazyLists instead of LazyList(iter([...]))). The list
# arguments go through a producer element inside the same program; what the
# producer made is read from a separate run of the producer alone, so the
# producers' own semantics are not part of the oracle.

PRODUCERS = ["U", "ƛ;", "'1;", "f", "0ȯ", "Ṙ"]  # uniquify, map, filter, flatten, slice, reverse


def produced_program(key, shape, g):
    if shape in ("L", "SL"):
        return f"{g} {key}"
    if shape == "LS":
        return f"${g}$ {key}"
    return f"{g}${g}$ {key}"


def _to_spec(n):
    """normalised value -> pure-data spec, or raise ValueError."""
    if isinstance(n, list):
        return [_to_spec(x) for x in n]
    if isinstance(n, dict):
        if "q" in n:
            return n
        raise ValueError(n)
    return n


def run_produced(key, shape, args, g, res, replay_unit):
    from lib import env, harness
    from lib.values import from_spec
    from lib.worker import Watchdog, watchdog

    c = res["counters"]

    def bump(name, n=1):
        c[name] = c.get(name, 0) + n

    def skip(why):
        res["skips"][why] = res["skips"].get(why, 0) + 1

    try:
        with watchdog(20):
            made = []
            for a in args:
                if not isinstance(a, list):
                    made.append(a)
                    continue
                r = env.run_text(g, stack=[from_spec(a)])
                if r.error is not None or len(r.stack) != 1:
                    return skip("producer_raises")
                try:
                    made.append(_to_spec(_norm(r.stack[-1])))
                except Exception:  # noqa
                    return skip("producer_output_not_plain")
                if not isinstance(made[-1], list):
                    return skip("producer_output_not_a_list")
            try:
                exp = expected(key, made)
            except Unstatable:
                return skip("produced_scalar_raises")
            prog = produced_program(key, shape, g)
            r = env.run_text(prog, stack=[from_spec(a) for a in args])
            res["evals"] += 1
            bump("produced_runs")
            if has_leaf(exp):
                res["keys"].append(harness.short_hash([key, shape, "P", g, args]))
            if r.error is not None:
                kind, got = "raises", f"{r.error[0]}:{type(r.error[1]).__name__}: {str(r.error[1])[:120]}"
            elif len(r.stack) != 1:
                kind, got = "raises", f"stack has {len(r.stack)} entries after the program"
            else:
                try:
                    got = _norm(r.stack[-1])
                    kind = None if got == exp else kind_of(exp, got)
                except Exception as e:  # noqa
                    kind, got = "raises", f"forcing:{type(e).__name__}: {str(e)[:120]}"
            if kind is None:
                bump("produced_held")
                return
            mech = f"{key}|{shape}|{kind}-produced"
            bump("violations")
            bump(f"v:{mech}")
            if sum(1 for w in res["violations"] if w["mechanism"] == mech) >= 3 or len(res["violations"]) >= 20:
                bump("violations_not_listed")
                return
            res["violations"].append({
                "mechanism": mech, "element": key, "shape": shape, "kind": kind, "placement": "produced",
                "what": (f"program {prog!r} on stack {short(args)} (lists as produced by {g!r}: {short(made)}): expected "
                         f"(same element on the paired scalars) {short(exp)}, observed {short(got)}"),
                "program": prog, "args": args, "produced": made,
                "expected": exp if len(short(exp, 10**6)) < 2000 else "(long)",
                "observed": got if len(short(got, 10**6)) < 2000 else "(long)",
                "unit": dict(replay_unit, producer=g),
            })
    except Watchdog:
        res["inconclusive"].append({"why": "watchdog (20 s) in one produced-list case", "element": key, "shape": shape, "args": args})
    except (RecursionError, MemoryError) as e:
        res["inconclusive"].append({"why": type(e).__name__, "element": key, "shape": shape, "args": args})


# --------------------------------------------------------------------------
# units

def _new_res():
    return {"evals": 0, "keys": [], "violations": [], "inconclusive": [], "skips": {}, "counters": {},
            "samples": []}


def run_unit(unit):
    res = _new_res()
    k = unit["kind"]
    if k == "table":
        return _check_table(res)
    entry = next((e for e in included() if e["key"] == unit["key"]), None)
    if entry is None:
        res["inconclusive"].append({"why": "element not in the committed table", "unit": unit})
        return res
    key, shape = entry["key"], unit["shape"]
    before = _stats["scalar_applications"]
    if k == "one":  # replay of a single argument set
        st = run_case(key, shape, unit["args"], unit.get("lazy_mode", "all"), res, unit)
        if st == "held" and unit.get("producer"):
            run_produced(key, shape, unit["args"], unit["producer"], res, unit)
    else:
        # generate until n argument sets were conclusive (scalar applications all
        # returned), at most ATTEMPTS x n sets: a logical budget, not a clock
        r = random.Random(f"C08:{unit['seed']}:{key}:{shape}:{unit['chunk']}")
        i = 0
        while res["counters"].get(f"c:{key}:{shape}:E", 0) < unit["n"] and i < ATTEMPTS * unit["n"]:
            args = gen_case(r, entry, shape)
            mode = LAZY_MODES[(i + unit["chunk"]) % len(LAZY_MODES)]
            ru = {"kind": "one", "key": key, "shape": shape, "args": args, "lazy_mode": mode}
            st = run_case(key, shape, args, mode, res, ru)
            if st == "held":  # ride-along only where the plain law held (else it says nothing new)
                run_produced(key, shape, args, PRODUCERS[(i + unit["chunk"]) % len(PRODUCERS)], res, ru)
            i += 1
        res["counters"]["argument_sets_generated"] = i
        # the curated domains keep the scalar law statable (non-zero divisors, non-empty separators,
        # positive counts); as many sets again lift those value restrictions (never the
        # type classes): sets on which some scalar application raises are skipped, the rest are held
        # to the same law
        wild = dict(entry, domains=[RELAXED.get(d, d) for d in entry["domains"]])
        if wild["domains"] == entry["domains"]:
            res["counters"]["scalar_applications"] = _stats["scalar_applications"] - before
            return res
        j = 0
        while j < unit["n"]:
            _EDGE[0] = True
            try:
                args = gen_case(r, wild, shape)
            finally:
                _EDGE[0] = False
            mode = LAZY_MODES[(j + unit["chunk"]) % len(LAZY_MODES)]
            ru = {"kind": "one", "key": key, "shape": shape, "args": args, "lazy_mode": mode}
            st = run_case(key, shape, args, mode, res, ru)
            if st != "skipped":
                res["counters"]["relaxed_domain_sets_conclusive"] = res["counters"].get("relaxed_domain_sets_conclusive", 0) + 1
            j += 1
        res["counters"]["relaxed_domain_sets_generated"] = j
    res["counters"]["scalar_applications"] = _stats["scalar_applications"] - before
    return res


def _unq(s):
    s = s.strip()
    if len(s) >= 2 and s[0] == s[-1] and s[0] in "\"'":
        body = s[1:-1]
        if s[0] == '"':
            body = body.replace('\\"', '"').replace("\\\\", "\\")
        else:
            body = body.replace("''", "'")
        return body
    return s


def yaml_vectorising():
    """Keys of the `vectorise: true` entries of elements.yaml (line parser)."""
    import re

    path = os.path.join(os.environ.get("VERIF_REPO", "/repo"), "documents", "knowledge", "elements.yaml")
    out, cur = [], None
    with open(path, encoding="utf-8") as f:
        for line in f:
            m = re.match(r"^- (element|modifier):\s*(.*?)\s*$", line)
            if m:
                cur = _unq(m.group(2))
                continue
            if cur is not None and re.match(r"^  vectorise:\s*true\s*$", line):
                out.append(cur)
    return out


def _check_table(res):
    """The committed table against the documentation and the element table:
    every documented-vectorising element is either included or excluded with a
    written reason; included keys exist with the recorded arity."""
    from vyxal import elements as E

    c = res["counters"]
    t = table()
    doc = yaml_vectorising()
    by_key = {e["key"]: e for e in t["entries"]}
    for key in doc:
        res["evals"] += 1
        c["table_entries_checked_against_yaml"] = c.get("table_entries_checked_against_yaml", 0) + 1
        e = by_key.get(key)
        if e is None:
            res["inconclusive"].append({"why": f"elements.yaml documents {key!r} as vectorising but the committed "
                                               f"table has no decision for it (table stale)"})
        elif not e.get("include") and not e.get("reason"):
            res["inconclusive"].append({"why": f"table excludes {key!r} without a reason"})
    for e in t["entries"]:
        if e["key"] not in doc:
            res["inconclusive"].append({"why": f"table entry {e['key']!r} is not documented as vectorising"})
        if e.get("include"):
            res["keys"].append("table:" + e["key"])
            got = E.elements.get(e["key"])
            if got is None:
                res["inconclusive"].append({"why": f"included element {e['key']!r} is not in the element table"})
            elif got[1] != e["arity"]:
                res["inconclusive"].append({"why": f"included element {e['key']!r}: table arity {got[1]}, committed {e['arity']}"})
    c["table_included"] = len(included())
    c["table_excluded"] = len(t["entries"]) - len(included())
    return res


# --------------------------------------------------------------------------

# Divergence classes that share one root cause are grouped under one id; the
# predicate is (element, shapes, divergence classes, list placement) — never a
# value or a hash. Placement: "both" (eager and lazy diverge), "eager"/"lazy"
# (only that one diverges), "produced" (only the producer-made lazy list does).
GROUPS = [
    # `sympy.fibonacci(lhs + 1)` template: any list raises TypeError
    ("∆f", {"L"}, {"raises"}, None, "C08-∆f-list-raises"),
    # copy_sign never pairs a right-hand list: its truthiness picks one sign for all
    ("∆±", {"SL", "LLeq", "LLne"}, {"not-a-list", "differs", "length"}, None, "C08-∆±-right-list-not-paired"),
    # roman_numeral tests `vy_type(lhs) is list`, a LazyList falls through and returns None
    ("øṘ", {"L"}, {"returns-none", "raises"}, {"lazy", "produced"}, "C08-øṘ-lazy-list-returns-none"),
]


def _split_kind(kind):
    for suf in ("-lazy", "-eager", "-produced"):
        if kind.endswith(suf):
            return kind[: -len(suf)], suf[1:]
    return kind, "both"


def classify(w):
    """Known-finding id by mechanism: element, shape, divergence class, placement."""
    m = w.get("mechanism")
    if not m or m.count("|") != 2:
        return None
    key, shape, kind = m.split("|")
    base, placement = _split_kind(kind)
    for k, shapes, kinds, placements, fid in GROUPS:
        if key == k and shape in shapes and base in kinds and (placements is None or placement in placements):
            return fid
    return f"C08-{key}-{shape}-{kind}"


def finalize(agg, tier):
    cnt = agg["counters"]
    below = []
    full = 0
    for key, shape, lz in cells():
        n = cnt.get(f"c:{key}:{shape}:{lz}", 0)
        if n >= NEED:
            full += 1
        else:
            below.append({"element": key, "shape": shape, "placement": lz, "conclusive": n,
                          "skipped": cnt.get(f"skip:{key}:{shape}", 0)})
    cnt["cells_with_20"] = full
    total = len(cells())
    if below:
        agg["inconclusive"].extend(
            {"why": f"only {b['conclusive']} < {NEED} conclusive cases for element {b['element']!r} shape "
                    f"{b['shape']} ({b['placement']})"} for b in below)
    mech = {k[2:]: v for k, v in cnt.items() if k.startswith("v:")}
    return {
        "cells_total": total,
        "cells_with_20_conclusive": full,
        "cells_below_20": below,
        "elements_checked": len(included()),
        "violations_by_mechanism": dict(sorted(mech.items())),
        "exhaustive": False,
    }
