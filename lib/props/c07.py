"""C07 — rational arithmetic is exact and stays inside the number types.

Deciding oracle (public observables only): the six elements `+ - * / % ḭ` are
reached through program text (`env.run_text(op, stack=[a, b])`, so lexer,
parser, transpiler and the element table are inside the loop) on operands that
are Python ints, sympy Integers or sympy Rationals; the single entry left on
the stack must be an `int` / sympy `Integer` / sympy `Rational` whose value
equals the `fractions.Fraction` result (division and floor division by zero
give 0; modulo by zero is not specified by the property and is skipped).

Expression trees of depth <= 5 over `+ - * /` (plus the identity templates
a/b*b, a*b/b, a+b-b, a-b+b, (a/b)*b-a) are serialised as *whole Vyxal
programs* with numeric literals and run on an empty stack; the one value left
must equal the Fraction evaluation of the tree.

Secondary (attribution only): a `sys.monitoring` PY_START/PY_RETURN monitor on
the six element functions (found through the element table's templates, so a
rename does not break it) records every (arguments -> return value) of a tree
run; the first call with exact rational arguments and a wrong/inexact result
names the mechanism. A bad call seen by the monitor is reported only after it
was confirmed through the public path (`run_text(op, stack=[a, b])`).
"""
from __future__ import annotations

import random
import re
import sys
from fractions import Fraction
from math import floor, gcd, trunc

ID = "C07"
LEVEL = "exploration"
DESIGN_REF = "DESIGN.md §1 C07"
RULE = (
    "operations: the six elements + - * / % ḭ executed through program text on (a) every ordered pair of "
    "the 93 rationals p/q with |p| <= 12, q <= 6 (integers as Python int, and again with integers as sympy "
    "Integer), (b) seeded pairs with |p| <= 10^6, q <= 10^4 in int/int, int/rational, rational/int, "
    "rational/rational mixes (boundary-heavy: equal, negated, reciprocal, exact multiples, common factors, "
    "0, +-1), (b2) every ordered pair (both orders, both integer types) of ~90 left values with ~260 magnitude "
    "boundaries: +-(2^k, 2^k+-1) up to 2^19, +-(10^k, 10^k+-1), powers of 3 and 7, rationals over 2^k (k <= 13) and 10^k; (c) seeded expression trees of depth <= 5 over + - * / and field-identity templates, executed as "
    "whole Vyxal programs with literals (negatives built as `0 n-` or `nN`), compared with Fraction. "
    "evaluations counts element executions observed (one per operation, one per tree program). "
    "distinct_nontrivial counts distinct typed operand pairs (a, b) other than pairs drawn from {0, 1} "
    "(exhaustive pairs are disjoint by construction and counted directly, sampled pairs by hash, sampled pairs "
    "that fall inside the exhaustive space are not counted again) plus distinct tree program texts with at "
    "least one operator."
)
ASSUMPTIONS = [
    "fractions.Fraction is the exact reference; modulo is the floored remainder a - b*floor(a/b)",
    "modulo by zero is not specified by the property: skipped and counted",
    "tree leaves are literals that C05's oracle accepts on this tree (each distinct leaf literal is run alone first; a tree with a leaf that does not evaluate exactly is skipped and counted, it is C05's subject)",
]
MIN_COUNTERS = {
    "op_executions": {"quick": 20000, "thorough": 250000},
    "exhaustive_pairs": {"quick": 2400, "thorough": 2400},
    "division_executions": {"quick": 3000, "thorough": 19000},
    "tree_programs": {"quick": 600, "thorough": 8000},
    "tree_division_nodes": {"quick": 1400, "thorough": 17000},
    "fixed_hostile_trees": 30,
    "boundary_pairs": {"quick": 20000, "thorough": 20000},
}
UNIT_TIMEOUT = 1500
MAX_WITNESSES_PER_UNIT = 20

OPS = ["+", "-", "*", "/", "%", "ḭ"]
OPNAME = {"+": "add", "-": "subtract", "*": "multiply", "/": "divide", "%": "modulo", "ḭ": "floordiv"}


# --------------------------------------------------------------------------
# model
# --------------------------------------------------------------------------
def model(op, a, b):
    """Fraction result, or None when the property does not define it."""
    if op == "+":
        return a + b
    if op == "-":
        return a - b
    if op == "*":
        return a * b
    if op == "/":
        return Fraction(0) if b == 0 else a / b
    if op == "ḭ":
        return Fraction(0) if b == 0 else Fraction(floor(a / b))
    if op == "%":
        if b == 0:
            return None
        return a - b * floor(a / b)
    raise ValueError(op)


# operand specs: int n -> Python int; {"I": n} -> sympy.Integer; {"q": [p, q]} -> sympy.Rational (q > 1)
def spec_fraction(s):
    if isinstance(s, int):
        return Fraction(s)
    if "I" in s:
        return Fraction(s["I"])
    return Fraction(s["q"][0], s["q"][1])


def spec_value(s):
    import sympy

    if isinstance(s, int):
        return s
    if "I" in s:
        return sympy.Integer(s["I"])
    return sympy.Rational(s["q"][0], s["q"][1])


def frac_spec(f, sym_int=False):
    if f.denominator == 1:
        return {"I": int(f.numerator)} if sym_int else int(f.numerator)
    return {"q": [int(f.numerator), int(f.denominator)]}


def spec_kind(s):
    if isinstance(s, int):
        return "int"
    return "Integer" if "I" in s else "Rational"


# design-time sightings, run for every seed (specs as in spec_value)
FIXED_PAIRS = [
    (239625, 635938), ({"I": 239625}, {"I": 635938}), ({"I": 3}, {"I": 1142}), (543, 590343),
    ({"q": [612, 191]}, {"q": [1586, 3]}), ({"q": [87926, 5167]}, {"q": [164885, 2229]}),
    ({"q": [5, 4]}, {"I": -1}), ({"q": [-1, 2]}, {"I": 1}), ({"I": 4}, {"q": [-2, 3]}), ({"I": 20}, {"q": [-1, 379]}),
    ({"q": [9998, 9999]}, {"q": [9999, 10000]}), (99980000, 99980001),
    (7, 0), ({"q": [1, 2]}, 0), ({"q": [1, 2]}, {"I": 0}), (0, 0),
]


def small_space():
    return sorted({Fraction(p, q) for p in range(-12, 13) for q in range(1, 7)})


def boundary_values():
    """Magnitude boundaries inside the quantifier (|p| <= 10^6, q <= 10^4): powers of two and ten
    and their neighbours, and rationals whose denominator is a power of two or ten."""
    ints = set()
    for base, kmax in ((2, 19), (10, 6), (3, 12), (7, 7)):
        for k in range(0, kmax + 1):
            for d in ((-1, 0, 1) if base in (2, 10) else (0,)):
                v = base ** k + d
                if 0 < v <= 10 ** 6:
                    ints.update((v, -v))
    R = {Fraction(v) for v in ints}
    rats = set()
    for k in range(1, 14):
        for p in (1, -1, 3, 5, -7, 999999):
            rats.add(Fraction(p, 2 ** k))
    for k in range(1, 5):
        for p in (1, -3, 7, 999999):
            rats.add(Fraction(p, 10 ** k))
    rats.update(Fraction(p, q) for p in (1, -2, 1000000) for q in (3, 7, 9973, 9999, 10 ** 4, 8191, 6561))
    lrats = {Fraction(p, 2 ** k) for p in (1, 3, -5) for k in (1, 4, 10, 12, 13)} | {
        Fraction(1, 3), Fraction(-2, 7), Fraction(7, 1000), Fraction(999999, 10 ** 4), Fraction(1, 9973)}
    L = sorted({Fraction(x) for x in (0, 1, -1, 2, 3, 5, -7, 12, 100, 1024, 2048, 4096, 65536, 524288, 10 ** 6,
                                      999983)} | lrats)
    return L, sorted(R | rats)


def in_small_space(f):
    return abs(f.numerator) <= 12 and f.denominator <= 6


# --------------------------------------------------------------------------
# sampled operand pairs
# --------------------------------------------------------------------------
def _rnd_int(r):
    x = r.random()
    if x < 0.15:
        return r.choice([0, 1, -1, 2, -2, 3, 10, 12, 100, 1000, 10 ** 6, -(10 ** 6), 999983, 720720, 65536])
    d = r.randint(1, 6)
    n = r.randint(10 ** (d - 1), 10 ** d) if d > 1 else r.randint(0, 10)
    return n if r.random() < 0.7 else -n


def _rnd_rat(r):
    q = r.choice([2, 3, 4, 5, 6, 7, 8, 9, 10, 12, 16, 25, 49, 64, 97, 100, 128, 360, 625, 1000, 1024, 2310, 4096, 9973, 10 ** 4]) if r.random() < 0.4 else r.randint(2, 10 ** 4)
    p = _rnd_int(r)
    return Fraction(p, q)


def gen_pair(r):
    mix = r.choice(["ii", "ii", "ir", "ri", "rr", "rr"])
    a = Fraction(_rnd_int(r)) if mix[0] == "i" else _rnd_rat(r)
    b = Fraction(_rnd_int(r)) if mix[1] == "i" else _rnd_rat(r)
    rel = r.random()
    if rel < 0.05:
        b = a
    elif rel < 0.10:
        b = -a
    elif rel < 0.15 and a != 0 and abs(a.numerator) <= 10 ** 4:
        b = 1 / a
    elif rel < 0.25 and b != 0:
        k = r.randint(-50, 50)
        cand = b * k
        if abs(cand.numerator) <= 10 ** 6:
            a = cand
    elif rel < 0.30:
        g = r.choice([2, 3, 6, 7, 10, 30, 210])
        if abs(a.numerator * g) <= 10 ** 6 and abs(b.numerator * g) <= 10 ** 6:
            a, b = a * g, b * g
    elif rel < 0.34:
        b = Fraction(0)
    elif rel < 0.37:
        a = Fraction(0)
    elif rel < 0.40:
        b = Fraction(r.choice([1, -1]))
    sa = frac_spec(a, sym_int=r.random() < 0.4)
    sb = frac_spec(b, sym_int=r.random() < 0.4)
    return sa, sb


# --------------------------------------------------------------------------
# expression trees
# --------------------------------------------------------------------------
# tree := ["lit", text, [p, q]] | ["neg0", text, [p,q]] (0 n -) | ["negN", text, [p,q]] (n N) | [op, left, right]
DEC_FRACS = ["5", "25", "75", "125", "2", "4", "1", "05", "8", "375", "0", "50"]


def gen_leaf(r):
    x = r.random()
    if x < 0.55:
        n = r.choice([0, 1, 2, 3, 4, 5, 6, 7, 8, 9, 10, 12, 16, 24, 60, 100, 360, 999]) if r.random() < 0.6 else r.randint(0, 999)
        text, val = str(n), Fraction(n)
    elif x < 0.62:
        n = r.randint(1000, 10 ** 6)
        text, val = str(n), Fraction(n)
    else:
        ip = r.choice(["0", "", "1", "2", "3", "7", "12", "99"]) if r.random() < 0.7 else str(r.randint(0, 99))
        fp = r.choice(DEC_FRACS)
        text = ip + "." + fp
        val = Fraction(int(ip) if ip else 0) + Fraction(int(fp), 10 ** len(fp))
    y = r.random()
    kind = "lit"
    if y < 0.15:
        kind = "neg0"
        val = -val
    elif y < 0.22:
        kind = "negN"
        val = -val
    return [kind, text, [val.numerator, val.denominator]]


def gen_tree(r, depth):
    if depth <= 0 or r.random() < (0.12 if depth >= 4 else 0.3):
        return gen_leaf(r)
    op = r.choice(["+", "-", "*", "/", "/", "*"])
    return [op, gen_tree(r, depth - 1), gen_tree(r, depth - 1)]


def gen_identity(r):
    x = gen_tree(r, r.randint(0, 2))
    y = gen_tree(r, r.randint(0, 2))
    form = r.randint(0, 5)
    if form == 0:
        return ["*", ["/", x, y], y]
    if form == 1:
        return ["/", ["*", x, y], y]
    if form == 2:
        return ["-", ["+", x, y], y]
    if form == 3:
        return ["+", ["-", x, y], y]
    if form == 4:
        return ["-", ["*", ["/", x, y], y], x]
    return ["/", x, ["/", x, y]]  # = y when x, y != 0


def fixed_trees():
    """Deterministic hostile trees (same for every seed): quotients of tiny and
    huge magnitude and identities through them, all of depth <= 5."""
    def lit(text):
        ip, _, fp = text.partition(".")
        v = Fraction(int(ip) if ip else 0) + (Fraction(int(fp), 10 ** len(fp)) if fp else 0)
        return ["lit", text, [v.numerator, v.denominator]]

    def prod(leaves):
        ts = [lit(x) for x in leaves]
        while len(ts) > 1:
            ts = [["*", ts[i], ts[i + 1]] for i in range(0, len(ts), 2)]
        return ts[0]

    bigs = ["1000000", "999983", "65536", "720720", "999999", "531441", "1000000", "390625"]
    out = []
    for num in ("1", "3", "0.5", "7", "12.25", "999"):
        for k in (2, 4, 8):
            for rot in (0, 3):
                leaves = (bigs[rot:] + bigs[:rot])[:k]
                p = prod(leaves)
                out.append(["/", lit(num), p])                       # tiny
                out.append(["/", ["/", lit(num), p], p])             # tinier
                out.append(["*", ["/", lit(num), p], p])             # a/b*b = a
                out.append(["/", p, ["/", lit(num), lit("1000000")]])  # huge
                out.append(["-", ["/", ["neg0", num, [-lit(num)[2][0], lit(num)[2][1]]], p], ["/", lit(num), p]])
    return [t for t in out if tree_depth(t) <= 5]


def tree_depth(t):
    if t[0] in ("lit", "neg0", "negN"):
        return 0
    return 1 + max(tree_depth(t[1]), tree_depth(t[2]))


def tree_tokens(t, out):
    k = t[0]
    if k == "lit":
        out.append(("num", t[1]))
    elif k == "neg0":
        out.append(("num", "0"))
        out.append(("num", t[1]))
        out.append(("op", "-"))
    elif k == "negN":
        out.append(("num", t[1]))
        out.append(("op", "N"))
    else:
        tree_tokens(t[1], out)
        tree_tokens(t[2], out)
        out.append(("op", k))
    return out


def tree_text(t):
    toks = tree_tokens(t, [])
    parts = []
    for i, (kind, s) in enumerate(toks):
        if kind == "num" and i > 0 and toks[i - 1][0] == "num":
            parts.append(" ")
        parts.append(s)
    return "".join(parts)


def tree_eval(t):
    k = t[0]
    if k in ("lit", "neg0", "negN"):
        return Fraction(t[2][0], t[2][1])
    return model(k, tree_eval(t[1]), tree_eval(t[2]))


def tree_stats(t, st):
    k = t[0]
    if k in ("lit", "neg0", "negN"):
        st["leaves"].add(t[1])
        return st
    st["ops"] += 1
    if k == "/":
        st["div"] += 1
    tree_stats(t[1], st)
    tree_stats(t[2], st)
    return st


# --------------------------------------------------------------------------
# units
# --------------------------------------------------------------------------
def units(tier, seed):
    quick = tier != "thorough"
    u = []
    n_small = len(small_space())
    for i in range(n_small):
        u.append({"kind": "exh", "lhs": i})
    n_pairs, n_div_every, n_trees = (9000, 3, 4000) if quick else (250000, 3, 50000)
    per = 300 if quick else 1000
    for k in range(0, n_pairs, per):
        u.append({"kind": "rand", "seed": seed, "i": k // per, "n": min(per, n_pairs - k), "div_every": n_div_every})
    per_t = 100 if quick else 250
    for k in range(0, n_trees, per_t):
        u.append({"kind": "tree", "seed": seed, "i": k // per_t, "n": min(per_t, n_trees - k)})
    u.append({"kind": "cases", "fixed": True, "cases": [[op, a, b] for a, b in FIXED_PAIRS for op in OPS]})
    for i in range(len(boundary_values()[0])):
        u.append({"kind": "boundary", "lhs": i})
    nfixed = len(fixed_trees())
    for k in range(0, nfixed, 30):
        u.append({"kind": "fixed_trees", "lo": k, "hi": min(nfixed, k + 30)})
    r = random.Random(f"C07-order-{seed}")
    r.shuffle(u)
    return u


# --------------------------------------------------------------------------
# secondary monitor on the element functions (attribution)
# --------------------------------------------------------------------------
class OpMonitor:
    TOOL = 3

    def __init__(self):
        self.available = False
        self.why = ""
        self.codes = {}  # code object -> op
        self.active = False
        self.pending = []
        self.calls = []

    def install(self):
        try:
            mon = sys.monitoring
        except AttributeError:
            self.why = "sys.monitoring missing"
            return
        try:
            from vyxal import elements as E

            for op in OPS:
                tmpl = E.elements[op][0]
                m = re.search(r"stack\.append\(\s*([A-Za-z_][A-Za-z_0-9]*)\(", tmpl)
                fn = getattr(E, m.group(1), None) if m else None
                code = getattr(fn, "__code__", None)
                if code is None or code.co_argcount < 2:
                    continue
                self.codes[code] = op
            if not self.codes:
                self.why = "no element function found through the templates"
                return
            try:
                mon.use_tool_id(self.TOOL, "verif-c07")
            except ValueError:
                mon.free_tool_id(self.TOOL)
                mon.use_tool_id(self.TOOL, "verif-c07")
            ev = mon.events
            mon.register_callback(self.TOOL, ev.PY_START, self._start)
            mon.register_callback(self.TOOL, ev.PY_RETURN, self._ret)
            for code in self.codes:
                mon.set_local_events(self.TOOL, code, ev.PY_START | ev.PY_RETURN)
            # PY_UNWIND cannot be set locally (it would have to be a global
            # event); _ret instead discards entries of frames that never
            # returned (they sit above the entry of the returning call)
            self.available = True
        except Exception as e:  # noqa
            self.why = repr(e)

    def _start(self, code, offset):
        if not self.active or code not in self.codes:
            return
        try:
            f = sys._getframe(1)
            names = code.co_varnames[:2]
            self.pending.append((code, f.f_locals.get(names[0]), f.f_locals.get(names[1])))
        except Exception:  # noqa
            self.pending.append((code, None, None))

    def _ret(self, code, offset, retval):
        if not self.active or code not in self.codes:
            return
        for i in range(len(self.pending) - 1, -1, -1):
            if self.pending[i][0] is code:
                _, a, b = self.pending[i]
                del self.pending[i:]
                self.calls.append((self.codes[code], a, b, retval))
                return

    def begin(self):
        self.pending = []
        self.calls = []
        self.active = True

    def end(self):
        self.active = False
        calls, self.calls = self.calls, []
        return calls


MON = OpMonitor()
_LEAF_CACHE = {}


def setup_worker():
    MON.install()


# --------------------------------------------------------------------------
# oracles
# --------------------------------------------------------------------------
def _describe(v):
    s = repr(v)
    if len(s) > 140:
        s = s[:137] + "..."
    return f"{type(v).__name__}:{s}"


def _approx(v):
    try:
        import sympy

        if isinstance(v, (int, float)) and not isinstance(v, bool):
            return float(v)
        if isinstance(v, sympy.Basic):
            c = complex(sympy.N(v, 30))
            return c.real if c.imag == 0 else None
    except Exception:  # noqa
        return None
    return None


def judge(op, a_val, b_val, fa, fb, outcome):
    """outcome = ("error", exc) | ("stack", [values]) | ("value", v).
    Returns None (held), ("skip", reason) or ("bad", mechanism, text)."""
    from lib.values import is_exact_number, to_fraction

    name = OPNAME[op]
    exp = model(op, fa, fb)
    if exp is None:
        return ("skip", "modulo-by-zero-unspecified")
    if outcome[0] == "error":
        if fb == 0 and op in ("/", "ḭ"):
            return ("bad", f"{name}-by-zero-not-0", f"raised {outcome[1]!r}, expected 0")
        return ("bad", f"{name}-raises", f"raised {outcome[1]!r}, expected {exp}")
    if outcome[0] == "stack":
        st = outcome[1]
        if len(st) != 1:
            return ("bad", f"{name}-stack-shape", f"left {len(st)} entries {[_describe(x) for x in st][:4]}, expected [{exp}]")
        v = st[0]
    else:
        v = outcome[1]
    python_ints = type(a_val) is int and type(b_val) is int
    if is_exact_number(v):
        got = to_fraction(v)
        if got == exp:
            return None
        if fb == 0 and op in ("/", "ḭ"):
            return ("bad", f"{name}-by-zero-not-0", f"gave {got}, expected 0")
        rel = float(abs(got - exp) / abs(exp)) if exp != 0 else None
        if op == "/" and got == 0 and abs(exp) < Fraction(1, 10 ** 25):
            # signature: a non-zero quotient of tiny magnitude came back as exactly 0
            mech = "divide-chops-tiny-to-zero"
        elif op == "/" and rel is not None and rel <= 1e-6:
            mech = "divide-through-float" if python_ints else "divide-nsimplify-rational"
        elif (op == "ḭ" and type(a_val) is not int and type(b_val) is not int and fa.denominator != 1
              and fb.denominator == 1 and got == Fraction(trunc(fa) // int(fb))):
            # signature: the rational lhs was truncated to an integer before an integer floor division
            mech = "floordiv-integer-rhs-truncates-rational-lhs"
        elif (op == "ḭ" and type(a_val) is not int and fa.denominator == 1 and fb.denominator != 1
              and fa / fb < 0 and (fa / fb).denominator == 1 and got == exp - 1):
            # signature: sympy Integer lhs, rational rhs, quotient an exact negative integer, result one too low
            mech = "floordiv-negative-exact-quotient-off-by-one"
        else:
            mech = f"{name}-wrong-value"
        return ("bad", mech, f"gave {got}, expected {exp} (relative error {rel})")
    a = _approx(v)
    rel = abs(a - float(exp)) / abs(float(exp)) if a is not None and exp != 0 else None
    import sympy

    if op == "/" and isinstance(v, sympy.Basic) and not isinstance(v, sympy.Float) and rel is not None and rel <= 1e-6:
        mech = "divide-through-float" if python_ints else "divide-nsimplify-rational"
    else:
        mech = f"{name}-inexact-type"
    return ("bad", mech, f"gave {_describe(v)}, not an int/Integer/Rational; expected {exp}")


def run_op(op, sa, sb):
    """Execute one element through program text. Returns (a_val, b_val, outcome) or raises Watchdog."""
    from lib import env
    from lib.worker import watchdog

    a, b = spec_value(sa), spec_value(sb)
    with watchdog(60):
        r = env.run_text(op, stack=[a, b])
    if r.error is not None:
        return a, b, ("error", r.error[1])
    return a, b, ("stack", list(r.stack))


class Acc:
    def __init__(self):
        self.res = {"evals": 0, "keys": [], "distinct": 0, "violations": [], "inconclusive": [], "skips": {},
                    "counters": {}, "samples": []}

    def count(self, name, n=1):
        c = self.res["counters"]
        c[name] = c.get(name, 0) + n

    def skip(self, why):
        s = self.res["skips"]
        s[why] = s.get(why, 0) + 1

    def violation(self, mech, what, unit, **kw):
        self.count("violations_" + mech)
        if len(self.res["violations"]) >= MAX_WITNESSES_PER_UNIT:
            self.count("witnesses_dropped")
            return
        w = {"mechanism": mech, "what": what, "unit": unit}
        w.update(kw)
        self.res["violations"].append(w)


def check_op(acc, op, sa, sb, sample=False):
    from lib.worker import Watchdog

    fa, fb = spec_fraction(sa), spec_fraction(sb)
    try:
        a, b, outcome = run_op(op, sa, sb)
    except Watchdog:
        acc.res["inconclusive"].append({"why": "watchdog 60s", "op": op, "a": sa, "b": sb})
        return
    except (MemoryError, RecursionError) as e:
        acc.res["inconclusive"].append({"why": type(e).__name__, "op": op, "a": sa, "b": sb})
        return
    verdict = judge(op, a, b, fa, fb, outcome)
    if verdict is not None and verdict[0] == "skip":
        acc.skip(verdict[1])
        return
    acc.res["evals"] += 1
    acc.count("op_executions")
    if op == "/":
        acc.count("division_executions")
    if fb == 0 and op in ("/", "ḭ"):
        acc.count("by_zero_executions")
    if sample and len(acc.res["samples"]) < 3 and outcome[0] == "stack":
        from lib.values import canon

        acc.res["samples"].append({"op": op, "a": sa, "b": sb, "stack": canon(outcome[1])})
    if verdict is None:
        return
    _, mech, text = verdict
    acc.violation(
        mech,
        f"{spec_kind(sa)} {fa} {op} {spec_kind(sb)} {fb}: {text}",
        {"kind": "cases", "cases": [[op, sa, sb]]},
        op=op, a=sa, b=sb, operand_kinds=[spec_kind(sa), spec_kind(sb)],
    )


def leaf_ok(text):
    """Does the literal alone evaluate to exactly what it spells? (C05's
    subject; a tree built on a mis-evaluated leaf says nothing about C07.)"""
    if text in _LEAF_CACHE:
        return _LEAF_CACHE[text]
    from lib import env
    from lib.values import is_exact_number, to_fraction
    from lib.worker import watchdog

    ip, _, fp = text.partition(".")
    exp = Fraction(int(ip) if ip else 0) + (Fraction(int(fp), 10 ** len(fp)) if fp else 0)
    ok = False
    with watchdog(60):
        r = env.run_text(text)
    if r.error is None and len(r.stack) == 1 and is_exact_number(r.stack[0]) and to_fraction(r.stack[0]) == exp:
        ok = True
    _LEAF_CACHE[text] = ok
    return ok


def check_program(acc, text, expect, tree=None, sample=False):
    """Run a whole program made of literals and + - * / (and N); compare the
    final stack with the Fraction `expect`."""
    from lib import env
    from lib.values import is_exact_number, to_fraction, canon
    from lib.worker import watchdog, Watchdog
    from lib.harness import short_hash

    leaves = set(re.findall(r"[0-9.]+", text))
    try:
        bad_leaves = [lf for lf in sorted(leaves) if not leaf_ok(lf)]
    except Watchdog:
        acc.res["inconclusive"].append({"why": "watchdog on a leaf literal", "text": text})
        return
    if bad_leaves:
        acc.skip("leaf-literal-not-exact-on-this-tree(C05)")
        return
    nops = sum(text.count(o) for o in "+-*/")
    ndiv = text.count("/")
    if MON.available:
        MON.begin()
    try:
        with watchdog(120):
            r = env.run_text(text)
    except Watchdog:
        MON.end()
        acc.res["inconclusive"].append({"why": "watchdog 120s on a tree program", "text": text})
        return
    except (MemoryError, RecursionError) as e:
        MON.end()
        acc.res["inconclusive"].append({"why": type(e).__name__ + " on a tree program", "text": text})
        return
    calls = MON.end() if MON.available else []
    acc.res["evals"] += 1
    acc.count("tree_programs")
    acc.count("tree_operator_nodes", nops)
    acc.count("tree_division_nodes", ndiv)
    if MON.available:
        acc.count("monitor_calls_seen", len(calls))
    else:
        acc.count("monitor_unavailable")
    if nops >= 1:
        acc.res["keys"].append(short_hash(["tree", text]))
    unit = {"kind": "programs", "programs": [{"text": text, "expect": [expect.numerator, expect.denominator]}]}

    # attribution: first monitored call with exact arguments and a bad result
    first_bad = None
    exact_calls = 0
    for op, a, b, ret in calls:
        if not (is_exact_number(a) and is_exact_number(b)):
            continue
        exact_calls += 1
        fa, fb = to_fraction(a), to_fraction(b)
        v = judge(op, a, b, fa, fb, ("value", ret))
        if v is not None and v[0] == "bad" and first_bad is None:
            # confirm through the public path with the same operands
            try:
                with watchdog(60):
                    rr = env.run_text(op, stack=[a, b])
            except Watchdog:
                continue
            out = ("error", rr.error[1]) if rr.error is not None else ("stack", list(rr.stack))
            v2 = judge(op, a, b, fa, fb, out)
            if v2 is not None and v2[0] == "bad":
                first_bad = (op, a, b, fa, fb, v2)
            else:
                acc.count("monitor_bad_call_not_confirmed")
    acc.count("monitor_exact_calls", exact_calls)

    final_bad = None
    if r.error is not None:
        final_bad = f"program raised {r.error[0]}: {r.error[1]!r}"
    elif len(r.stack) != 1:
        final_bad = f"program left {len(r.stack)} entries {[_describe(x) for x in r.stack][:4]}"
    else:
        v = r.stack[0]
        if not is_exact_number(v):
            final_bad = f"program left {_describe(v)}, not an int/Integer/Rational"
        elif to_fraction(v) != expect:
            final_bad = f"program left {to_fraction(v)}"
    if sample and len(acc.res["samples"]) < 3 and r.error is None:
        acc.res["samples"].append({"program": text, "stack": canon(list(r.stack)), "expected": str(expect)})
    if final_bad is None and first_bad is None:
        return
    if first_bad is not None:
        op, a, b, fa, fb, v2 = first_bad
        sa = frac_spec(fa, sym_int=type(a) is not int)
        sb = frac_spec(fb, sym_int=type(b) is not int)
        what = (f"program {text!r}: element {op} on {type(a).__name__} {fa}, {type(b).__name__} {fb} {v2[2]}"
                + (f"; {final_bad}, expected {expect}" if final_bad else "; final result happens to be right"))
        acc.violation(v2[1], what, unit, program=text, expected=str(expect), op=op, a=sa, b=sb,
                      operand_kinds=[type(a).__name__, type(b).__name__], seen_by="frame-monitor+public-rerun",
                      final_wrong=final_bad is not None, op_unit={"kind": "cases", "cases": [[op, sa, sb]]})
    else:
        acc.violation("tree-wrong-result", f"program {text!r}: {final_bad}, expected {expect} (no single element call with exact operands was seen failing)",
                      unit, program=text, expected=str(expect), monitor_available=MON.available)


def run_unit(unit):
    from lib.harness import short_hash

    acc = Acc()
    k = unit["kind"]
    if k == "exh":
        vals = small_space()
        a = vals[unit["lhs"]]
        for variant in ("py", "sym"):
            for b in vals:
                if variant == "sym" and a.denominator != 1 and b.denominator != 1:
                    continue  # nothing changes without an integer operand
                sa = frac_spec(a, sym_int=(variant == "sym"))
                sb = frac_spec(b, sym_int=(variant == "sym"))
                before = acc.res["evals"]
                for op in OPS:
                    check_op(acc, op, sa, sb, sample=(unit["lhs"] == 40))
                if acc.res["evals"] > before:
                    acc.count("exhaustive_pairs")
                    if not (a in (0, 1) and b in (0, 1)):
                        acc.res["distinct"] += 1
    elif k == "boundary":
        L, R = boundary_values()
        a = L[unit["lhs"]]
        for b in R:
            for x, y in ((a, b), (b, a)):
                for variant in ("py", "sym"):
                    if variant == "sym" and x.denominator != 1 and y.denominator != 1:
                        continue
                    sa = frac_spec(x, sym_int=(variant == "sym"))
                    sb = frac_spec(y, sym_int=(variant == "sym"))
                    before = acc.res["evals"]
                    for op in OPS:
                        check_op(acc, op, sa, sb)
                    if acc.res["evals"] > before:
                        acc.count("boundary_pairs")
                        if not (in_small_space(x) and in_small_space(y)):
                            acc.res["keys"].append(short_hash(["pair", sa, sb]))
    elif k == "rand":
        r = random.Random(f"C07-rand-{unit['seed']}-{unit['i']}")
        for j in range(unit["n"]):
            sa, sb = gen_pair(r)
            before = acc.res["evals"]
            for op in OPS:
                if op == "/" and j % unit.get("div_every", 1) != 0:
                    continue
                check_op(acc, op, sa, sb, sample=(j == 0))
            fa, fb = spec_fraction(sa), spec_fraction(sb)
            if acc.res["evals"] > before:
                acc.count("sampled_pairs")
                acc.count("mix_" + spec_kind(sa) + "_" + spec_kind(sb))
                if not (in_small_space(fa) and in_small_space(fb)):
                    acc.res["keys"].append(short_hash(["pair", sa, sb]))
    elif k == "tree":
        r = random.Random(f"C07-tree-{unit['seed']}-{unit['i']}")
        for j in range(unit["n"]):
            if r.random() < 0.3:
                t = gen_identity(r)
                acc.count("identity_templates_generated")
            else:
                t = gen_tree(r, r.choice([1, 2, 3, 3, 4, 4, 5, 5]))
            if tree_depth(t) < 1:
                t = ["+", t, gen_leaf(r)]
            text = tree_text(t)
            check_program(acc, text, tree_eval(t), sample=(j < 2))
    elif k == "fixed_trees":
        for t in fixed_trees()[unit["lo"]:unit["hi"]]:
            acc.count("fixed_hostile_trees")
            check_program(acc, tree_text(t), tree_eval(t))
    elif k == "cases":
        for op, sa, sb in unit["cases"]:
            check_op(acc, op, sa, sb, sample=True)
            acc.res["keys"].append(short_hash(["pair", sa, sb]))
    elif k == "programs":
        for p in unit["programs"]:
            check_program(acc, p["text"], Fraction(p["expect"][0], p["expect"][1]), sample=True)
    else:
        raise ValueError(f"unknown unit kind {k!r}")
    if not MON.available:
        acc.res["counters"]["monitor_unavailable_reason:" + (MON.why or "?")[:80]] = 1
    return acc.res


def classify(w):
    m = w.get("mechanism")
    if m in ("divide-through-float", "divide-nsimplify-rational", "floordiv-integer-rhs-truncates-rational-lhs",
             "floordiv-negative-exact-quotient-off-by-one", "divide-chops-tiny-to-zero"):
        return "C07-" + m
    return None


def finalize(agg, tier):
    c = agg["counters"]
    return {
        "exhaustive": False,
        "exhaustive_parts": {"pairs_of_rationals_p_le_12_q_le_6": c.get("exhaustive_pairs", 0)},
        "secondary_monitor": "unavailable" if c.get("monitor_unavailable") else "frame monitor on element functions: %d calls seen" % c.get("monitor_calls_seen", 0),
    }
