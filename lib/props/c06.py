"""C06 — quoting a string and evaluating the quoted text returns the same string.

Two obligations per string s, both decided by running program text through
tokenise -> parse -> transpile -> exec of the tree under test:

  via "q"   : the element `q` (reached through the element table by running the
              program `q` on the stack [s]) yields text t; the program t leaves
              exactly [s].
  via "lit" : the hand-escaped literal  ` + s with \\ -> \\\\ and ` -> \\` + `
              (the property's "equivalently" clause, independent of `q`) leaves
              exactly [s].

Each is run with dictionary compression off for every code-page string, and in
addition with compression on when s is printable ASCII (0x20..0x7E)."""
from __future__ import annotations

import itertools
import random

ID = "C06"
LEVEL = "exploration"
DESIGN_REF = "DESIGN.md §1 C06"
RULE = (
    "strings over the 256-character code page: exhaustive up to length 3 (quick) / 4 (thorough) over "
    "the escape-relevant subset {\\ ` \" ' newline a n x 0 λ}; all 65 536 two-character code-page "
    "strings; thorough adds every three-character code-page string containing \\ or `; random strings "
    "of length 5..40 over the whole code page (share of escape-relevant characters drawn per string from "
    "25 % to 100 %) with compression off, and over printable ASCII with compression on and off; runs of one or "
    "two alternating escape-relevant characters at every length 1..40 with 28 prefix/suffix alignments. A string is non-trivial when it is "
    "non-empty; distinct_nontrivial counts distinct strings whose quoted text was actually executed "
    "(exhaustive families are disjoint by construction, random ones are hashed)."
)
ASSUMPTIONS = [
    "printable ASCII is taken as 0x20..0x7E (no control characters)",
    "a program that raises, or a watchdog, is not counted as 'pushed the string': raise => violation, "
    "watchdog / MemoryError / RecursionError => inconclusive",
]
MIN_COUNTERS = {
    # unchanged tree: quick 126 903 / 253 806 / 59 770; thorough 1 567 055 / 3 134 110 / 741 768
    "q_executions": {"quick": 25000, "thorough": 300000},
    "text_runs_dict_off": {"quick": 50000, "thorough": 600000},
    "text_runs_dict_on": {"quick": 10000, "thorough": 140000},
    "compression_on_then_off_histories": {"quick": 6000, "thorough": 60000},
    "quote_under_flag_runs": {"quick": 10000, "thorough": 100000},
    "run_strings": {"quick": 20000, "thorough": 20000},
}
UNIT_TIMEOUT = 900

SUBSET = ["\\", "`", '"', "'", "\n", "a", "n", "x", "0", "λ"]
ESC = "\\`"
MAX_WITNESSES = 20
WATCHDOG_S = 3  # a literal evaluates in microseconds; only a broken tree runs stray text as code


def _is_ascii_printable(s):
    return all(" " <= ch <= "~" for ch in s)


# --------------------------------------------------------------------------
def units(tier, seed):
    u = []
    maxlen = 3 if tier == "quick" else 4
    # exhaustive over the subset, split by first character (plus the empty string)
    u.append({"kind": "subset", "first": None, "maxlen": maxlen})
    for i in range(len(SUBSET)):
        u.append({"kind": "subset", "first": i, "maxlen": maxlen})
    # all two-character strings over the code page (and every single character)
    step = 8
    for lo in range(0, 256, step):
        u.append({"kind": "cp2", "lo": lo, "hi": lo + step})
    if tier == "thorough":
        for lo in range(0, 256, 4):
            u.append({"kind": "cp3esc", "lo": lo, "hi": lo + 4})
    # runs of one or two escape-relevant characters at every length <= 40 and every alignment
    for i in range(len(RUN_CHARS)):
        u.append({"kind": "runs", "g": i})
    n_cp, n_ascii, per = (40000, 20000, 1000) if tier == "quick" else (800000, 300000, 5000)
    for k in range(n_cp // per):
        u.append({"kind": "rand_cp", "seed": f"C06:{seed}:cp:{k}", "n": per})
    for k in range(n_ascii // per):
        u.append({"kind": "rand_ascii", "seed": f"C06:{seed}:ascii:{k}", "n": per})
    return u


def setup_worker():
    pass


def model_literal(s):
    return "`" + s.replace("\\", "\\\\").replace("`", "\\`") + "`"


class _Abort(Exception):
    """A unit on a badly broken tree stops after MAX_WITNESSES witnesses (the verdict
    is already VIOLATION; the stray text it would keep executing is arbitrary code)."""


class _Acc:
    def __init__(self):
        self.res = {"evals": 0, "keys": [], "distinct": 0, "violations": [], "inconclusive": [],
                    "skips": {}, "counters": {}, "samples": []}
        self.c = self.res["counters"]

    def bump(self, name, n=1):
        self.c[name] = self.c.get(name, 0) + n

    def violation(self, mech, s, via, dc, text, observed):
        self.bump("violations_" + mech)
        if len(self.res["violations"]) >= MAX_WITNESSES:
            self.bump("violations_not_listed")
            return
        self.res["violations"].append({
            "mechanism": mech,
            "what": f"string {s!r}: {'q output' if via == 'q' else 'hand-escaped literal'} {text!r} run with "
                    f"dictionary compression {'on' if dc else 'off'} left {observed} instead of [{s!r}]",
            "unit": {"kind": "one", "s": s},
            "s": s, "via": via, "dict_compress": dc, "text": text, "observed": observed,
        })


def _run_text_checked(acc, s, via, text, dc):
    """Run `text` as a program; compare the stack with [s]."""
    from lib import env
    from lib.values import canon
    from lib.worker import watchdog, Watchdog

    try:
        with watchdog(WATCHDOG_S):
            r = env.run_text(text, dict_compress=dc)
            if r.error is None:
                got = canon(r.stack, limit=50)
    except Watchdog:
        acc.res["inconclusive"].append({"why": "watchdog running quoted text", "s": s, "text": text})
        return
    except (MemoryError, RecursionError) as e:
        acc.res["inconclusive"].append({"why": type(e).__name__, "s": s, "text": text})
        return
    acc.res["evals"] += 1
    acc.bump("text_runs_dict_on" if dc else "text_runs_dict_off")
    tag = f"{'quote' if via == 'q' else 'literal'}-roundtrip-dict-{'on' if dc else 'off'}"
    if r.error is not None:
        if isinstance(r.error[1], (MemoryError, RecursionError)):
            acc.res["inconclusive"].append({"why": type(r.error[1]).__name__, "s": s, "text": text})
            return
        acc.violation(tag, s, via, dc, text, f"{r.error[0]} error {type(r.error[1]).__name__}: {r.error[1]}"[:200])
        return
    if got != [s]:
        acc.violation(tag, s, via, dc, text, repr(got)[:200])


def check_string(acc, s):
    from lib import env
    from lib.worker import watchdog, Watchdog

    if len(acc.res["violations"]) >= MAX_WITNESSES or len(acc.res["inconclusive"]) >= MAX_WITNESSES:
        acc.bump("unit_stopped_after_max_witnesses")
        raise _Abort()
    ascii_ok = _is_ascii_printable(s)
    lit = model_literal(s)
    if not ascii_ok and (sum(map(ord, s)) % 3 == 0):
        # history: the same text evaluated with dictionary compression ON first (its result is not
        # determined for non-ASCII strings and is ignored), then OFF, in the same process: the second
        # evaluation must not depend on the first
        try:
            with watchdog(WATCHDOG_S):
                env.run_text(lit, dict_compress=True)
            acc.bump("compression_on_then_off_histories")
        except Watchdog:
            pass
        except Exception:  # noqa
            pass
    # --- q under interpreter flags that concern *printing* (P: python-style lists, ḋ: decimals,
    # t: truthy lists): the quote element's output must not depend on them
    if sum(map(ord, s)) % 5 == 1:
        for flag, attr, val in (("P", "vyxal_lists", False), ("ḋ", "print_decimals", True), ("t", "truthy_lists", True)):
            try:
                with watchdog(WATCHDOG_S):
                    cx = env.new_ctx()
                    if not hasattr(cx, attr):
                        continue
                    setattr(cx, attr, val)
                    rq = env.run_text("q", stack=[s], ctx=cx)
                    if rq.error is not None or len(rq.stack) != 1 or not isinstance(rq.stack[-1], str):
                        acc.res["evals"] += 1
                        acc.violation("quote-element-failed-under-flag-" + flag, s, "q", False, "q", str(rq.error)[:150])
                        continue
                    cy = env.new_ctx()
                    setattr(cy, attr, val)
                    r2 = env.run_text(rq.stack[-1], dict_compress=False, ctx=cy)
                    acc.res["evals"] += 1
                    acc.bump("quote_under_flag_runs")
                    from lib.values import canon as _canon

                    got2 = None if r2.error is not None else _canon(r2.stack, limit=50)
                    if got2 != [s]:
                        acc.violation("quote-roundtrip-under-flag-" + flag, s, "q", False, rq.stack[-1],
                                      (str(r2.error) if r2.error is not None else repr(got2))[:200])
            except Watchdog:
                pass
    # --- via the element q ------------------------------------------------
    try:
        with watchdog(WATCHDOG_S):
            r = env.run_text("q", stack=[s])
    except Watchdog:
        acc.res["inconclusive"].append({"why": "watchdog in q", "s": s})
        r = None
    if r is not None:
        acc.bump("q_executions")
        if r.error is not None or len(r.stack) != 1 or not isinstance(r.stack[-1], str):
            obs = (f"{r.error[0]} error {type(r.error[1]).__name__}: {r.error[1]}"[:200]
                   if r.error is not None else f"stack {r.stack!r}"[:200])
            acc.res["evals"] += 1
            acc.violation("quote-element-failed", s, "q", False, "q", obs)
        else:
            text = r.stack[-1]
            _run_text_checked(acc, s, "q", text, False)
            if ascii_ok:
                _run_text_checked(acc, s, "q", text, True)
    # --- via the hand-escaped literal ---------------------------------------
    _run_text_checked(acc, s, "lit", lit, False)
    if ascii_ok:
        _run_text_checked(acc, s, "lit", lit, True)


RUN_CHARS = ["\\", "`", '"', "'", "\n", "{", "%"]
DENSITIES = [0.25, 0.25, 0.25, 0.5, 0.8, 0.95, 1.0]


def _rand_cp(r, cp):
    n = r.randint(5, 40)
    out = []
    d = r.choice(DENSITIES)  # share of escape-relevant characters in this string
    pool = ESC if d <= 0.25 else r.choice([ESC, "\\", '\\"', '\\`"\n', '"\n'])
    for _ in range(n):
        x = r.random()
        if x < d:
            out.append(r.choice(pool))
        elif x < d + 0.15:
            out.append(r.choice(SUBSET))
        else:
            out.append(r.choice(cp))
    return "".join(out)


ASCII = [chr(i) for i in range(0x20, 0x7F)]


def _rand_ascii(r):
    n = r.randint(5, 40)
    out = []
    d = r.choice(DENSITIES)
    pool = ESC if d <= 0.25 else r.choice([ESC, "\\", '\\"', '\\`"', '"{'])
    for _ in range(n):
        x = r.random()
        if x < d:
            out.append(r.choice(pool))
        elif x < d + 0.10:
            out.append(r.choice('"\'anx0 {}%'))
        else:
            out.append(r.choice(ASCII))
    return "".join(out)


def run_unit(unit):
    from vyxal import encoding
    from lib.harness import short_hash

    cp = encoding.codepage
    acc = _Acc()
    res = acc.res
    k = unit["kind"]
    subset = set(SUBSET)

    try:
        _run_kind(acc, unit, k, cp, subset)
    except _Abort:
        pass
    return res


def _run_kind(acc, unit, k, cp, subset):
    from lib.harness import short_hash

    res = acc.res
    if k == "one":
        check_string(acc, unit["s"])
        res["keys"].append(short_hash(unit["s"]))
    elif k == "subset":
        if unit["first"] is None:
            check_string(acc, "")  # trivial: executed, not counted as distinct
        else:
            first = SUBSET[unit["first"]]
            for n in range(0, unit["maxlen"]):
                for tail in itertools.product(SUBSET, repeat=n):
                    s = first + "".join(tail)
                    check_string(acc, s)
                    res["distinct"] += 1
            res["samples"].append({"s": first + "\\`", "literal": model_literal(first + "\\`")})
    elif k == "runs":
        g = RUN_CHARS[unit["g"]]
        seen = set()
        for L in range(1, 41):
            for pre in ("", "a", "ab", "λ", "aλb", "`", "\\"):
                for post in ("", "a", "\\", "`"):
                    m = L - len(pre) - len(post)
                    if m < 1:
                        continue
                    cands = [pre + g * m + post]
                    for g2 in RUN_CHARS:
                        if g2 != g:
                            cands.append(pre + ((g + g2) * m)[:m] + post)
                    for s in cands:
                        if s in seen:
                            continue
                        seen.add(s)
                        check_string(acc, s)
                        res["keys"].append(short_hash(s))
                        acc.c["run_strings"] = acc.c.get("run_strings", 0) + 1
    elif k == "cp2":
        for a in range(unit["lo"], unit["hi"]):
            ca = cp[a]
            check_string(acc, ca)
            if ca not in subset:
                res["distinct"] += 1
            for cb in cp:
                s = ca + cb
                check_string(acc, s)
                if not (ca in subset and cb in subset):
                    res["distinct"] += 1
    elif k == "cp3esc":
        # every 3-character code-page string containing \ or `, first char in [lo, hi)
        for a in range(unit["lo"], unit["hi"]):
            ca = cp[a]
            for cb in cp:
                if ca in ESC or cb in ESC:
                    thirds = cp
                else:
                    thirds = ESC
                for cc in thirds:
                    s = ca + cb + cc
                    check_string(acc, s)
                    if not (ca in subset and cb in subset and cc in subset):
                        res["distinct"] += 1
    elif k in ("rand_cp", "rand_ascii"):
        r = random.Random(unit["seed"])
        seen = set()
        for i in range(unit["n"]):
            s = _rand_cp(r, cp) if k == "rand_cp" else _rand_ascii(r)
            if s in seen:
                continue
            seen.add(s)
            check_string(acc, s)
            res["keys"].append(short_hash(s))
            if i < 2:
                res["samples"].append({"s": s, "literal": model_literal(s)})
    else:
        raise ValueError(f"unknown unit kind {k!r}")


def classify(w):
    m = w.get("mechanism")
    return f"C06-{m}" if m else None


def finalize(agg, tier):
    # the bounded families (subset strings, all 2-character strings) are enumerated completely
    return {"exhaustive": True,
            "exhaustive_note": "subset strings up to the tier's length bound and all 2-character code-page "
                               "strings are complete; random families are samples"}
