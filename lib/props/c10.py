"""C10 -- values are immutable: no element changes a value another reference
can see.

(a) Every key of the element table (and every modifier applied to elements)
    is executed through program text on `sentinels + arguments`; the harness
    keeps the argument objects. After a normally completed execution the
    results are read (bounded: a program could do that too), then every list /
    lazy-list argument is materialised (bounded) and compared with the value
    its pure-data spec denotes. A lazy list whose cache *grew* still denotes
    the same sequence; one whose cache was rewritten, doubled, or whose source
    was drained does not -- that is exactly what materialising afterwards sees.
(b) Programs `<value> <copy-op> <at most 3 elements>`: after the copy-op every
    reachable holder of the value (stack entries, register, global array,
    variable, the object the harness preloaded) is remembered *without being
    read* (a duplicate is a lazy view; reading it early would hide a later
    write); after the elements ran, every holder must still denote the value.
Secondary (M-FRAME ride-along, sys.monitoring, no wrapper): list arguments of
element functions are snapshotted at PY_START and compared at PY_RETURN; lazy
list arguments only by the append-only rule on their cache. An argument that
is one of the interpreter's own stacks is exempt.

Executions that raise, exit or hit the watchdog make no claim."""
from __future__ import annotations

ID = "C10"
LEVEL = "exploration"
DESIGN_REF = "DESIGN.md §1 C10"
RULE = (
    "(a) one case = (program, argument specs) with at least one list / lazy-list argument, program = table key or "
    "modifier applied to table keys; (b) one case = (value spec, how it enters: preloaded or list literal, copy-op, "
    "up to three elements each optionally preceded by literal operands); (a2) every key of arity 1..3 on 18 degenerate or deep "
    "list shapes ([], [[]], [[], 1], [\"\", 0], lazy [], [[0, [0, 0]], 0] ...) in each argument position against 5-7 typical values in the "
    "others; (b2) the value is made by the program itself (15 producers: endless, infinite-flagged, lazily mapped / "
    "filtered / zipped lists), then copy-op and element, and every holder must read (first 10 items, 3 levels) what "
    "the producer's result reads when run alone. Only normally completed executions are "
    "evaluated. distinct_nontrivial = distinct (program, argument-shape tuple) pairs for (a) and distinct "
    "(copy-op, element sequence, value shape) triples for (b) in which at least one kept list value was compared."
)
ASSUMPTIONS = [
    "the frame monitor finds element functions as plain functions defined in vyxal.elements (feature-detected)",
    "results are read to a bounded depth (8 items, 2 levels) before the kept values are compared",
    "kept values are compared through lib.values.canon (ints / rationals exact, strings, nested lists; laziness erased)",
    "an execution that raises / exits / exceeds the 3 s watchdog makes no claim",
    "the two segments of a (b) program are transpiled separately and exec'd in one namespace on one stack",
]
MIN_COUNTERS = {
    "keys_conclusive": {"quick": 240, "thorough": 240},
    "arguments_compared": {"quick": 2000, "thorough": 8000},
    "lazy_arguments_compared": {"quick": 700, "thorough": 2500},
    "holders_compared": {"quick": 3000, "thorough": 15000},
    "frame_arguments_guarded": {"quick": 30000, "thorough": 150000},
    "degenerate_shape_cases_compared": {"quick": 5000, "thorough": 5000},
    "produced_holders_compared": {"quick": 2000, "thorough": 8000},
}
MAX_INCONCLUSIVE_ABS = 5
UNIT_TIMEOUT = 900

NEED = 10
TUPLES = {"quick": 30, "thorough": 150}
MOD_TUPLES = {"quick": 1, "thorough": 6}
KEYS_PER_MOD_UNIT = 12
KEYS_PER_COPY_UNIT = {"quick": 6, "thorough": 2}
COPY_VALUES = {"quick": 1, "thorough": 4}
RAND_UNITS = {"quick": 64, "thorough": 256}
RAND_PER_UNIT = {"quick": 120, "thorough": 300}

# text of the copy-op, and which holders must denote the value afterwards:
#   "stack": all stack entries | "stack0": only the bottom one |
#   "wrapped0": bottom entry denotes [value]; plus register / global array / variable x
COPY_OPS = [
    (":", ["stack"]),
    ("D", ["stack"]),
    ("Ḃ", ["stack0"]),
    ("⅛¾", ["wrapped0", "global_array"]),
    ("⅛¾h", ["stack", "global_array"]),
    ("→x←x", ["stack", "var_x"]),
    (":→x", ["stack", "var_x"]),
    ("£¥", ["stack", "register"]),
    (":£", ["stack", "register"]),
]
LITERALS = ["0", "1", "2", "3", "9", "12", "`ab`", "`a`", "⟨0|1⟩", "⟨2⟩", "⟨1|`a`⟩", "λ1|d;", "λ2|+;", "λ1|2%;", "λ1|›;"]
NEVER = {"Q"}  # exits the interpreter
REVERSERS = {"Ṙ", "Ḃ", "R"}

_guard = None
_guard_status = "unavailable"
_guard_info = {}


def _all_keys():
    from lib import env

    env.bind()
    from vyxal import elements as E

    return list(E.elements)


def units(tier, seed):
    from lib import env

    env.bind()
    from vyxal import elements as E

    keys = list(E.elements)
    u = [{"kind": "key", "key": k, "n": TUPLES[tier], "seed": seed} for k in keys if E.elements[k][1] > 0]
    for i in range(0, len(keys), KEYS_PER_MOD_UNIT):
        u.append({"kind": "mod", "keys": keys[i:i + KEYS_PER_MOD_UNIT], "n": MOD_TUPLES[tier], "seed": seed})
    ck = [k for k in keys if E.elements[k][1] > 0 and k not in NEVER]
    step = KEYS_PER_COPY_UNIT[tier]
    for i in range(0, len(ck), step):
        u.append({"kind": "copykey", "keys": ck[i:i + step], "n": COPY_VALUES[tier], "seed": seed})
    for j in range(RAND_UNITS[tier]):
        u.append({"kind": "copyrand", "idx": j, "n": RAND_PER_UNIT[tier], "seed": seed})
    # every key on degenerate list shapes in each argument position (small-shape exhaustive)
    sk = [k for k in keys if 1 <= E.elements[k][1] <= 3 and k not in NEVER]
    for i in range(0, len(sk), 8):
        u.append({"kind": "shapes", "keys": sk[i:i + 8]})
    # values made by the program itself (infinite, flagged, lazily mapped lists) under every copy-op
    for i in range(0, len(ck), 24):
        u.append({"kind": "produced", "keys": ck[i:i + 24], "seed": seed, "n": 1 if tier == "quick" else 4})
    # M-FRAME ride-along on whatever lists real structure programs produce (C01's workload)
    for j in range(16 if tier == "quick" else 240):
        u.append({"kind": "ride", "idx": j, "n": 60, "seed": seed})
    return u


def setup_worker():
    global _guard, _guard_status, _guard_info
    import types

    from lib.monitors import frame

    if not frame.available():
        _guard_status = "unavailable: no sys.monitoring"
        return
    from vyxal import elements as E

    fns = [v for v in vars(E).values()
           if isinstance(v, types.FunctionType) and getattr(v, "__module__", None) == E.__name__
           and v.__code__.co_name != "wrapped"]
    if len(fns) < 50:
        _guard_status = "unavailable: element functions not found"
        return
    _guard = frame.ArgGuard()
    _guard_info = frame.watch(fns, _guard)
    _guard_status = "attached"


# --------------------------------------------------------------------------


def _with_history(program, specs):
    """A third of the lazy arguments are handed over already exhausted, a sixth partly read: an element must
    treat a lazy list the same whatever was observed on it before."""
    import zlib

    out = []
    for i, sp in enumerate(specs):
        if isinstance(sp, dict) and "lazy" in sp and "read" not in sp:
            h = zlib.crc32(repr((program, i, sp)).encode("utf-8", "replace")) % 6
            if h in (0, 1):
                sp = dict(sp, read="all")
            elif h == 2 and sp["lazy"]:
                sp = dict(sp, read=1)
        out.append(sp)
    return out


def _new_res():
    return {"evals": 0, "keys": [], "violations": [], "inconclusive": [], "skips": {}, "counters": {}, "samples": []}


def _skip(res, why):
    res["skips"][why] = res["skips"].get(why, 0) + 1


def _count(res, name, n=1):
    res["counters"][name] = res["counters"].get(name, 0) + n


def _family(lazy, how):
    """Mechanism family from what is observable: the (sub)list that changed
    is lazy or eager, and how it reads now."""
    if how == "repeated" and lazy:
        return "lazy-list-repeated"
    if how == "items-lost" and lazy:
        return "lazy-list-drained"
    return "writes-into-argument"


def _selfcheck_spec(spec):
    from lib import values

    try:
        return values.canon(values.from_spec(spec), 200) == values.spec_plain(spec)
    except Exception:  # noqa
        return False


def _restore_stdin():
    import os
    import sys

    try:
        if sys.stdin is None or sys.stdin.closed:
            sys.stdin = open(os.devnull)
    except Exception:  # noqa
        pass


def _read_results(stack, keep_ids):
    """Read the results the way a later part of the program could (top of
    the stack first). Errors of a lazily computed result are the result's
    problem, not this property's."""
    from lib.gen import elemcases as ec
    from lib.worker import Watchdog, watchdog

    try:
        with watchdog(2.0):
            for x in reversed(list(stack)):
                if id(x) in keep_ids:
                    continue
                try:
                    ec.force(x)
                except Watchdog:
                    raise
                except SystemExit:
                    _restore_stdin()
                except RecursionError:
                    pass
                except Exception:  # noqa
                    pass
        return True
    except Watchdog:
        return False
    except MemoryError:
        return False


def _compare_holders(holders, res):
    """holders: list of (label, object, spec). Returns list of change dicts,
    or None when the comparison itself could not be carried out."""
    from lib.gen import elemcases as ec
    from lib.worker import Watchdog, watchdog

    changes = []
    try:
        with watchdog(3.0):
            for label, obj, spec in holders:
                exp = ec.expected_of(spec)
                try:
                    obs = ec.observe(obj, spec)
                except Watchdog:
                    raise
                except MemoryError:
                    return None
                except SystemExit:
                    _restore_stdin()
                    return None
                except Exception as e:  # noqa
                    changes.append({"holder": label, "how": "unreadable", "at": [], "expected": exp,
                                    "observed": ec.short_err(e), "lazy": ec.spec_is_lazy(spec)})
                    continue
                if obs != exp:
                    path, how, lazy = ec.locate_change(spec, exp, obs, root_lazy=type(obj).__name__ == "LazyList")
                    changes.append({"holder": label, "how": how, "at": list(path), "expected": exp,
                                    "observed": obs, "lazy": lazy})
    except Watchdog:
        return None
    return changes


def _frame_events():
    if _guard is None:
        return []
    return list(_guard.events)


def _judge(changes, events):
    """(mechanism family, how, detail) of the first problem, or None."""
    if changes:
        # an eager list written in place explains changed views of it too
        eager = [c for c in changes if not c["lazy"]]
        ch = eager[0] if eager else changes[0]
        where = f" (at index path {ch['at']})" if ch["at"] else ""
        return (_family(ch["lazy"], ch["how"]), ch["how"],
                f"{ch['holder']} now reads {ch['observed']!r}, expected {ch['expected']!r}{where}")
    if events:
        e = events[0]
        fam = "writes-into-argument"
        how = "frame-" + e["kind"]
        return fam, how, (f"{e['function']}() changed its {e['kind']} list argument '{e['argument']}' in place: "
                          f"{e['before']!r} -> {e['after']!r}")
    return None


# -------------------------------------------------------------------- (a)


def _attribute(operands, events):
    """Which operand key of a modifier program wrote into its argument: the
    function of the first direct call the frame monitor caught, mapped back
    through the table templates (feature-detected); else all operands."""
    if len(operands) == 1:
        return operands[0]
    import re

    from lib.gen import elemcases as ec

    table = ec.element_table()
    for direct in (True, False):
        for e in events:
            if bool(e.get("direct_call")) != direct:
                continue
            hits = [k for k in operands
                    if re.search(r"\b" + re.escape(e["function"]) + r"\b", str(table.get(k, ("",))[0]))]
            if len(set(hits)) == 1:
                return hits[0]
    return " ".join(operands)


def run_case_a(program, specs, res, kind="key", mod=None, operands=None):
    from lib import values
    from lib.gen import elemcases as ec
    from lib.gen import values as gv
    from lib.harness import short_hash
    from lib.monitors import frame

    specs = _with_history(program, specs)
    for s in specs:
        if ec.spec_is_listy(s) and not _selfcheck_spec(s):
            _skip(res, "generator_selfcheck")
            return "selfcheck"
    try:
        args = [values.from_spec(s) for s in specs]
    except Exception:  # noqa
        _skip(res, "argument_not_buildable")
        return "nobuild"
    sent = ec.make_sentinels()
    stack = sent + args
    frame.reset()
    if _guard is not None:
        _guard.begin_case(stack)
    run = ec.execute([program], stack)
    events = _frame_events()
    if _guard is not None:
        _guard.begin_case(None)
    if not run.completed:
        _skip(res, run.why)
        return run.why
    holders = [(f"argument {i + 1}", a, s) for i, (a, s) in enumerate(zip(args, specs)) if ec.spec_is_listy(s)]
    if not holders:
        _skip(res, "no_list_argument")
        return "completed"
    keep = {id(a) for a in args} | {id(x) for x in sent}
    if not _read_results(run.stack, keep):
        _skip(res, "watchdog_reading_results")
        return "watchdog"
    changes = _compare_holders(holders, res)
    if changes is None:
        _skip(res, "watchdog_comparing")
        return "completed"
    res["evals"] += 1
    _count(res, "arguments_compared", len(holders))
    _count(res, "lazy_arguments_compared", sum(1 for _l, _a, s in holders if ec.spec_is_lazy(s)))
    res["keys"].append(short_hash([program, [gv.shape_of(s) for s in specs]]))
    verdict = _judge(changes, events)
    if verdict:
        fam, how, detail = verdict
        if len(res["violations"]) < 20:
            res["violations"].append({
                "mechanism": fam,
                "subject": _attribute(operands or [program], events) if kind == "mod" else program,
                "modifier": mod,
                "how": how,
                "part": "a",
                "what": f"program {program!r} on sentinels + {specs!r}: {detail}",
                "changes": changes[:4],
                "frame_events": events[:4],
                "unit": {"kind": "case_a", "program": program, "specs": specs, "case_kind": kind, "mod": mod,
                         "operands": operands},
            })
        else:
            _count(res, "violations_not_listed")
    if len(res["samples"]) < 2:
        res["samples"].append({"part": "a", "program": program, "args": specs, "kept_values_unchanged": not verdict})
    return "completed"


# -------------------------------------------------------------------- (b)


def _literal_for(spec):
    """List-literal text for an eager spec of non-negative ints, simple
    strings and nested eager lists; None if not expressible that simply."""
    if isinstance(spec, bool):
        return None
    if isinstance(spec, int):
        return str(spec) if spec >= 0 else None
    if isinstance(spec, str):
        if "`" in spec or "\\" in spec:
            return None
        return "`" + spec + "`"
    if isinstance(spec, list):
        if not spec:
            return None
        items = [_literal_for(x) for x in spec]
        if any(i is None for i in items):
            return None
        return "⟨" + "|".join(items) + "⟩"
    return None


def _gen_value(r):
    from lib.gen import elemcases as ec
    from lib.gen import values as gv

    x = r.random()
    if x < 0.3:
        spec = [r.randint(0, 9) for _ in range(r.randint(3, 5))]
    elif x < 0.45:
        spec = [r.choice([s for s in gv.STRINGS if s]) for _ in range(r.randint(2, 4))]
    elif x < 0.6:
        spec = [[r.randint(0, 9) for _ in range(r.randint(1, 3))] for _ in range(r.randint(2, 3))]
    elif x < 0.8:
        spec = ec.gen_cat(r, "Lx")
        if not spec:
            spec = [1, 2, 3]
    else:
        spec = [r.randint(0, 9) for _ in range(r.randint(3, 5))]
    if r.random() < 0.35:
        return {"lazy": spec}
    return spec


def _group_text(group):
    return " ".join(group)


def _seg2_text(groups):
    return " " + " ".join(_group_text(g) for g in groups)


def _seg2_ok(groups):
    """Generator self-check: the text lexes to exactly the tokens the
    intended items lex to one by one (no merging across items)."""
    from vyxal import lexer

    try:
        want = [(t.name, t.value) for g in groups for item in g for t in lexer.tokenise(item)]
        got = [(t.name, t.value) for t in lexer.tokenise(_seg2_text(groups))]
    except Exception:  # noqa
        return False
    strip = lambda ts: [t for t in ts if t[1] != " "]  # noqa
    return strip(got) == strip(want)


def _gen_group(r, key, arity, fill_p=0.75):
    lits = []
    if arity > 1 and r.random() < fill_p:
        lits = [r.choice(LITERALS) for _ in range(arity - 1)]
    return lits + [key]


def run_case_b(vspec, mode, copy_idx, groups, res, shrink=True):
    """One (b) program. `groups`: list of token lists, each ending in an
    element key."""
    from lib import values
    from lib.gen import elemcases as ec
    from lib.gen import values as gv
    from lib.harness import short_hash
    from lib.monitors import frame

    copy_text, wanted = COPY_OPS[copy_idx]
    if not _selfcheck_spec(vspec):
        _skip(res, "generator_selfcheck")
        return "selfcheck"
    if mode == "literal":
        lit = _literal_for(vspec)
        if lit is None:
            mode = "preloaded"
    if mode == "literal":
        seg1 = lit + copy_text
        stack = []
        preloaded = None
    else:
        seg1 = copy_text
        preloaded = values.from_spec(vspec)
        stack = [preloaded]
    if groups and not _seg2_ok(groups):
        _skip(res, "generator_selfcheck")
        return "selfcheck"
    seg2 = _seg2_text(groups) if groups else " "
    holders = []

    def between(i, run):
        if i != 0:
            return
        seen = set()

        def add(label, obj, spec):
            if type(obj) is list or type(obj).__name__ == "LazyList":
                if id(obj) not in seen:
                    seen.add(id(obj))
                    holders.append((label, obj, spec))

        st = run.ns.get("stack")
        if preloaded is not None:
            add("the preloaded value", preloaded, vspec)
        if type(st) is list:
            if "stack" in wanted:
                for j, x in enumerate(st):
                    add(f"stack entry {j} after {copy_text!r}", x, vspec)
            elif "stack0" in wanted and st:
                add(f"stack entry 0 after {copy_text!r}", st[0], vspec)
            elif "wrapped0" in wanted and st:
                add(f"stack entry 0 after {copy_text!r}", st[0], [vspec])
        ctx = run.ctx
        if "register" in wanted:
            add("the register", getattr(ctx, "register", None), vspec)
        if "global_array" in wanted:
            ga = getattr(ctx, "global_array", None)
            if type(ga) is list:
                for j, x in enumerate(ga):
                    add(f"global array item {j}", x, vspec)
        if "var_x" in wanted:
            add("variable x", run.ns.get("VAR_x"), vspec)

    frame.reset()
    if _guard is not None:
        _guard.begin_case(stack)
    ctx = ec.fresh_ctx(global_array=())
    run = ec.execute([seg1, seg2], stack, ctx=ctx, between=between)
    events = _frame_events()
    if _guard is not None:
        _guard.begin_case(None)
    if not run.completed:
        _skip(res, run.why)
        return run.why
    if not holders:
        _skip(res, "no_holder")
        return "completed"
    keep = {id(h[1]) for h in holders}
    if not _read_results(run.stack, keep):
        _skip(res, "watchdog_reading_results")
        return "watchdog"
    changes = _compare_holders(holders, res)
    if changes is None:
        _skip(res, "watchdog_comparing")
        return "completed"
    res["evals"] += 1
    _count(res, "holders_compared", len(holders))
    _count(res, "copy_programs_compared")
    ekeys = [g[-1] for g in groups]
    res["keys"].append(short_hash([copy_text, ekeys, gv.shape_of(vspec), mode]))
    verdict = _judge(changes, events)
    if verdict:
        fam, how, detail = verdict
        subject = " ".join(ekeys)
        minimal = groups
        if shrink:
            # smallest sub-sequence that still shows it; the empty one first:
            # the copy-op itself may be what wrote into the value
            found = None
            cands = [[]]
            if len(groups) > 1:
                cands += [[g] for g in groups]
            if len(groups) == 3:
                cands += [groups[:2], groups[1:], [groups[0], groups[2]]]
            for cand in cands:
                sub = _new_res()
                run_case_b(vspec, mode, copy_idx, cand, sub, shrink=False)
                if sub["violations"]:
                    found = cand
                    fam = sub["violations"][0]["mechanism"]
                    how = sub["violations"][0]["how"]
                    detail = sub["violations"][0]["detail"]
                    break
            if found is not None:
                minimal = found
                subject = " ".join(g[-1] for g in found) if found else copy_text
        program = (seg1 if mode == "literal" else f"<{vspec!r}> {copy_text}") + _seg2_text(minimal)
        if len(res["violations"]) < 20:
            res["violations"].append({
                "mechanism": fam,
                "subject": subject,
                "how": how,
                "part": "b",
                "detail": detail,
                "what": f"program {program!r}: {detail}",
                "changes": changes[:4],
                "frame_events": events[:4],
                "original_sequence": [_group_text(g) for g in groups],
                "unit": {"kind": "case_b", "value": vspec, "mode": mode, "copy": copy_idx, "groups": minimal},
            })
        else:
            _count(res, "violations_not_listed")
    if len(res["samples"]) < 2:
        res["samples"].append({"part": "b", "value": vspec, "enters": mode, "program_after_value": copy_text + seg2,
                               "holders": [h[0] for h in holders], "kept_values_unchanged": not verdict})
    return "completed"


# ------------------------------------------------------------- produced values
DEGENERATE = [[], [[]], [[], 0], [[], 1], [0, []], [[0], 1], [[], []], [""], ["", 0], [0], [1, 2], [2, [], 1],
              {"lazy": []}, {"lazy": [[], 1]},
              # deeper than the generators' usual two levels
              [[0, [0, 0]], 0], [[[1]]], [1, [2, [3, [4]]]], {"lazy": [[1, [2, 3]], 4]}]
TYPICAL = [[1, 2, 3], [[1, 2], [3, 4]], {"lazy": [1, 2, 3]}, 2, "abc", 0, {"fn": "λ1|d;"}]
TYPICAL3 = [[1, 2, 3], [[1, 2], [3, 4]], {"lazy": [1, 2, 3]}, 2, "abc"]
PRODUCERS = ["Þp", "ÞF", "Þ!", "Þ∞", "Þp9Ẏ", "5ɾ", "5ɾƛd;", "Þ∞'2%;", "⟨3|1|2⟩ƛ›;", "9ʀṘ", "λ+;⟨1|1⟩Ḟ", "Þ∞ƛ3%;",
             "⟨⟨1|2⟩|⟨3⟩⟩ƛ;", "Þp:Z", "6ɾ2ẇ"]
ENDLESS = {"Þp", "ÞF", "Þ!", "Þ∞", "Þ∞'2%;", "λ+;⟨1|1⟩Ḟ", "Þ∞ƛ3%;", "Þp:Z"}
_PCONTROL = {}


def _bview(v, width=10, depth=3):
    import itertools

    t = type(v)
    if t is list or t.__name__ == "LazyList":
        if depth <= 0:
            return "..."
        return [_bview(x, width, depth - 1) for x in itertools.islice(iter(v), width)]
    if callable(v):
        return "function"
    return repr(v)


def _pcontrol(producer):
    from lib.gen import elemcases as ec
    from lib.worker import watchdog

    if producer not in _PCONTROL:
        out = None
        run = ec.execute([producer], [], ctx=ec.fresh_ctx(global_array=()))
        if run.completed and type(run.stack) is list and run.stack:
            try:
                with watchdog(3.0):
                    out = _bview(run.stack[-1])
            except BaseException:  # noqa
                out = None
        _PCONTROL[producer] = out
    return _PCONTROL[producer]


def run_case_p(producer, copy_idx, groups, res):
    """<producer> <copy-op> <element sequence>: every holder of the produced value must afterwards read
    (first 10 items, 3 levels) what the producer's result reads when the producer runs alone."""
    from lib.gen import elemcases as ec
    from lib.harness import short_hash
    from lib.worker import Watchdog, watchdog

    control = _pcontrol(producer)
    if control is None:
        _skip(res, "producer_control_failed")
        return "nocontrol"
    copy_text, wanted = COPY_OPS[copy_idx]
    if groups and not _seg2_ok(groups):
        _skip(res, "generator_selfcheck")
        return "selfcheck"
    holders = []

    def between(i, run):
        if i != 0:
            return
        seen = set()

        def add(label, obj, wrapped=False):
            if (type(obj) is list or type(obj).__name__ == "LazyList") and id(obj) not in seen:
                seen.add(id(obj))
                holders.append((label, obj, wrapped))

        st = run.ns.get("stack")
        if type(st) is list:
            if "stack" in wanted:
                for j, x in enumerate(st):
                    add(f"stack entry {j} after {copy_text!r}", x)
            elif "stack0" in wanted and st:
                add(f"stack entry 0 after {copy_text!r}", st[0])
            elif "wrapped0" in wanted and st:
                add(f"stack entry 0 after {copy_text!r}", st[0], True)
        ctx = run.ctx
        if "register" in wanted:
            add("the register", getattr(ctx, "register", None))
        if "global_array" in wanted:
            ga = getattr(ctx, "global_array", None)
            if type(ga) is list:
                for j, x in enumerate(ga):
                    add(f"global array item {j}", x)
        if "var_x" in wanted:
            add("variable x", run.ns.get("VAR_x"))

    run = ec.execute([producer + copy_text, _seg2_text(groups) if groups else " "], [],
                     ctx=ec.fresh_ctx(global_array=()), between=between, seconds=1.0)
    if not run.completed:
        _skip(res, run.why)
        return run.why
    if not holders:
        _skip(res, "no_holder")
        return "completed"
    keep = {id(h[1]) for h in holders}
    if not _read_results(run.stack, keep):
        _skip(res, "watchdog_reading_results")
        return "watchdog"
    bad = None
    try:
        with watchdog(3.0):
            for label, obj, wrapped in holders:
                try:
                    now = _bview(obj)
                except Watchdog:
                    raise
                except (MemoryError, RecursionError, SystemExit):
                    _restore_stdin()
                    _skip(res, "holder_not_readable")
                    return "completed"
                except Exception as e:  # noqa
                    now = f"reading raised {type(e).__name__}"
                exp = [control] if wrapped else control
                if now != exp:
                    bad = (label, exp, now)
                    break
    except Watchdog:
        _skip(res, "watchdog_comparing")
        return "completed"
    res["evals"] += 1
    _count(res, "produced_holders_compared", len(holders))
    ekeys = [g[-1] for g in groups]
    res["keys"].append(short_hash([producer, copy_text, ekeys]))
    if bad:
        label, exp, now = bad
        subject = " ".join(ekeys) if ekeys else copy_text
        if len(res["violations"]) < 20:
            res["violations"].append({
                "mechanism": "produced-value-changed", "subject": subject, "how": "reads-differently", "part": "b",
                "what": f"program {producer + copy_text + _seg2_text(groups)!r}: {label} now reads {now!r}; the result of "
                        f"{producer!r} alone reads {exp!r}",
                "unit": {"kind": "case_p", "producer": producer, "copy": copy_idx, "groups": groups},
            })
        else:
            _count(res, "violations_not_listed")
    return "completed"


# ------------------------------------------------------------------ units


def run_ride(unit, res):
    """Structure programs from C01's generator run through execute_vyxal with the argument guard
    attached to every element function: no element may write into a list that came off a stack."""
    import random

    from lib import structrun
    from lib.gen import struct as G
    from lib.harness import short_hash
    from lib.props.c01 import gen_case

    if _guard is None:
        _skip(res, "frame_monitor_unavailable")
        return
    structrun.install()
    if "prog" in unit:
        cases = [(unit["prog"], unit["inputs"], unit["flags"])]
    else:
        r = random.Random(f"C10/ride/{unit['seed']}/{unit['idx']}")
        cases = [gen_case(r) for _ in range(unit["n"])]
        if "only" in unit:
            cases = cases[unit["only"]:unit["only"] + 1]
    for prog, inputs, flags in cases:
        text, _toks = G.serialise(prog)
        from lib.monitors import frame

        frame.reset()
        _guard.begin_case(None)
        before = _guard.compared
        got = structrun.run_impl(text, [repr(x) for x in inputs], flags, timeout=5, line_monitor=True)
        events = _frame_events()
        _guard.begin_case(None)
        if got["error"] in ("watchdog", "MemoryError"):
            _skip(res, "ride_" + got["error"])
            continue
        if _guard.compared == before:
            _skip(res, "ride_no_list_argument")
            continue
        res["evals"] += 1
        _count(res, "ride_programs")
        _count(res, "ride_arguments_compared", _guard.compared - before)
        res["keys"].append(short_hash(["ride", text, inputs]))
        if events:
            e = events[0]
            if len(res["violations"]) < 20:
                res["violations"].append({
                    "mechanism": "writes-into-argument",
                    "subject": e["function"] + "()",
                    "how": "frame-" + e["kind"],
                    "part": "ride",
                    "what": (f"program {text!r} inputs={inputs}: {e['function']}() changed its {e['kind']} list argument "
                             f"'{e['argument']}' in place: {e['before']!r} -> {e['after']!r}"),
                    "frame_events": events[:4],
                    "unit": {"kind": "ride", "prog": prog, "inputs": inputs, "flags": flags},
                })


def split_unit(unit):
    if unit.get("kind") == "ride" and "only" not in unit and "prog" not in unit:
        return [dict(unit, only=j) for j in range(unit["n"])]
    return None


def run_unit(unit):
    from lib.gen import elemcases as ec

    res = _new_res()
    c = res["counters"]
    kind = unit["kind"]
    g0 = (_guard.args_guarded, _guard.lazy_guarded, _guard.exempt_stack_args, _guard.compared) if _guard else None
    if kind == "case_a":
        run_case_a(unit["program"], unit["specs"], res, unit.get("case_kind", "key"), unit.get("mod"),
                   unit.get("operands"))
    elif kind == "case_b":
        run_case_b(unit["value"], unit["mode"], unit["copy"], unit["groups"], res)
    elif kind == "key":
        key = unit["key"]
        table = ec.element_table()
        arity = max(0, int(table[key][1]))
        r = ec.rng_for("C10", unit["seed"], key)
        sampler = ec.ArgSampler(r, arity, require_list=True)
        done = tries = dogs = 0
        limit = unit["n"]
        hard = max(120, int(1.5 * limit))
        while tries < limit or (done < NEED and tries < hard):
            tries += 1
            cats, specs = sampler.next()
            before = res["evals"]
            why = run_case_a(key, specs, res)
            if why == "completed":
                sampler.completed(cats)
                if res["evals"] > before:
                    done += 1
            elif why in ("watchdog", "memory"):
                dogs += 1
                if dogs >= 6:
                    break
        c["compared:" + key] = done
        if done >= NEED:
            c["keys_conclusive"] = 1
        else:
            c["keys_inconclusive"] = 1
    elif kind == "mod":
        table = ec.element_table()
        keys = list(table)
        for key in unit["keys"]:
            r = ec.rng_for("C10mod", unit["seed"], key)
            for mod, program, nargs, operands in ec.modifier_programs(r, key, keys):
                if nargs == 0:
                    continue
                if not ec.modifier_shape_ok(mod, program):
                    _skip(res, "generator_selfcheck")
                    continue
                sampler = ec.ArgSampler(r, nargs, explore=1, require_list=True)
                for _ in range(unit["n"]):
                    cats, specs = sampler.next()
                    before = res["evals"]
                    why = run_case_a(program, specs, res, "mod", mod, operands)
                    if why == "completed":
                        sampler.completed(cats)
                        if res["evals"] > before:
                            _count(res, "modifier_runs_compared:" + mod)
    elif kind == "copykey":
        table = ec.element_table()
        for key in unit["keys"]:
            arity = max(0, int(table[key][1]))
            r = ec.rng_for("C10copy", unit["seed"], key)
            ok = dogs = 0
            for ci in range(len(COPY_OPS)):
                for _ in range(unit["n"]):
                    vspec = _gen_value(r)
                    mode = "literal" if r.random() < 0.5 else "preloaded"
                    for fill in (1.0, 0.0) if arity > 1 else (1.0,):
                        if dogs >= 6:
                            continue  # an element that keeps running into the watchdog
                        group = _gen_group(r, key, arity, fill_p=fill)
                        before = res["evals"]
                        why = run_case_b(vspec, mode, ci, [group], res)
                        if why in ("watchdog", "memory"):
                            dogs += 1
                        ok += res["evals"] - before
            c["copy_compared:" + key] = ok
            if ok:
                _count(res, "copy_keys_compared")
            else:
                _count(res, "copy_keys_never_compared")
    elif kind == "case_p":
        run_case_p(unit["producer"], unit["copy"], unit["groups"], res)
    elif kind == "shapes":
        import itertools

        table = ec.element_table()
        for key in unit["keys"]:
            arity = int(table[key][1])
            typ = TYPICAL if arity < 3 else TYPICAL3
            dogs = 0
            for pos in range(arity):
                for deg in DEGENERATE:
                    for rest in itertools.product(typ, repeat=arity - 1):
                        if dogs >= 4:
                            break  # an element that keeps running into the watchdog (or whose results take seconds to read)
                        specs = list(rest[:pos]) + [deg] + list(rest[pos:])
                        before = res["evals"]
                        why = run_case_a(key, specs, res)
                        if why in ("watchdog", "memory"):
                            dogs += 1
                        if res["evals"] > before:
                            _count(res, "degenerate_shape_cases_compared")
    elif kind == "produced":
        table = ec.element_table()
        for key in unit["keys"]:
            arity = max(0, int(table[key][1]))
            r = ec.rng_for("C10prod", unit["seed"], key)
            dogs = 0
            for producer in PRODUCERS:
                for _ in range(unit["n"]):
                    if dogs >= 1 and producer in ENDLESS:
                        break  # an element that does not return on one endless list will not on the next
                    if dogs >= 4:
                        break
                    ci = r.randrange(len(COPY_OPS))
                    group = _gen_group(r, key, arity, fill_p=1.0)
                    why = run_case_p(producer, ci, [group], res)
                    if why in ("watchdog", "memory"):
                        dogs += 1
    elif kind == "ride":
        run_ride(unit, res)
    elif kind == "copyrand":
        table = ec.element_table()
        keys = [k for k in table if k not in NEVER]
        r = ec.rng_for("C10rand", unit["seed"], unit["idx"])
        for _ in range(unit["n"]):
            vspec = _gen_value(r)
            mode = "literal" if r.random() < 0.5 else "preloaded"
            ci = r.randrange(len(COPY_OPS))
            n = r.choice([2, 2, 3])
            groups = []
            for _j in range(n):
                k = r.choice(keys)
                groups.append(_gen_group(r, k, max(0, int(table[k][1])), fill_p=0.6))
            run_case_b(vspec, mode, ci, groups, res)
    if _guard is not None:
        c["frame_arguments_guarded"] = _guard.args_guarded - g0[0]
        c["frame_lazy_arguments_guarded"] = _guard.lazy_guarded - g0[1]
        c["frame_stack_arguments_exempt"] = _guard.exempt_stack_args - g0[2]
        c["frame_arguments_compared_at_return"] = _guard.compared - g0[3]
    c["frame_monitor_" + _guard_status.split(":")[0]] = 1
    return res


def classify(w):
    """By mechanism. A lazy list that reads as itself repeated is one
    mechanism whatever element triggered it (nothing was written by the
    element: the list's own cache was extended with a copy of itself), so it
    gets one id; in-place writes are per element."""
    m = w.get("mechanism")
    s = w.get("subject")
    if m == "lazy-list-repeated":
        # two ways to get there were seen: indexing a lazy list from the end,
        # and reversing a duplicate; the second is told apart by the element
        if s and set(s.split(" ")) & REVERSERS:
            return "C10-lazy-list-repeated-after-reverse"
        return "C10-lazy-list-repeated"
    if m and s:
        return f"C10-{s}-{m}"
    return None


def finalize(agg, tier):
    cs = agg["counters"]
    low = sorted(k.split(":", 1)[1] for k, v in cs.items() if k.startswith("compared:") and v < NEED)
    return {
        "inconclusive_keys": low,
        "keys_total": sum(1 for k in cs if k.startswith("compared:")),
        "frame_monitor": "attached" if cs.get("frame_monitor_attached") else "unavailable",
        "exhaustive": False,
    }
