"""C18 — generated Python contains program text only as constants.

Two cooperating monitors on the result of the real `vyxal.transpile.transpile`
for arbitrary input strings (a postcondition checked on every call the
workloads make):

1. shape whitelist + identifier vocabulary, both derived AT RUN TIME from the
   tree under test by transpiling a benign corpus (every element key, every
   modifier with every operand kind, every structure form and parameter kind,
   every literal kind, break/recurse in every parent). A statement's skeleton
   is its AST with str/number constants -> C, prefixed identifiers ->
   `<prefix>*`, nested statement lists -> `…`. The fixed prefixes themselves
   are measured (transpile the same program with two different names / twice
   for the random ids and diff the identifiers), so a template refactor moves
   the whitelist with it and cannot alarm.
2. taint: marker letters that occur in no vocabulary identifier are put into
   the hostile payloads; an identifier (any `str` field of any AST node:
   Name.id, Attribute.attr, arg, keyword.arg, FunctionDef.name, Global /
   Nonlocal names, alias names, handler names, ...) that contains a marker
   letter and is not `<fixed prefix>[A-Za-z0-9_]*` is program text used as
   Python, whatever its shape.

Output that `transpile` refuses to produce (it raises) or that does not compile
is outside the property ("if it returns code"; compiling is C02) and is counted
as a skip. A `compile` audit hook counts that the monitor's own ast.parse /
compile calls really happen (M-AUDIT ride-along, counters only).
"""
from __future__ import annotations

import ast
import random
import re
import sys

from lib.gen import payloads as P

ID = "C18"
LEVEL = "exploration"
DESIGN_REF = "DESIGN.md §1 C18"
RULE = (
    "one evaluation = one input string for which transpile() returned text that compiles, walked statement by "
    "statement against the run-time whitelist/vocabulary and the taint rule. Workloads: payloads of length <= 3 "
    "(quick: <= 2 inside wrappers) over the 16-symbol adversarial alphabet at 22 program-text positions x 4 "
    "wrappers, and over a second 16-symbol alphabet (. , = space - * # @ non-ASCII letters) at the 11 name positions; break-out payloads at every position (breaker prefix or one token of a fuzzing dictionary - the generated code's own "
    "identifier prefixes and vocabulary, every Python spelling of a quote / backslash / newline escape - then a statement-"
    "completing tail, raw or quoted as a string token); all raw strings of length <= 4 (thorough <= 5) over that alphabet; random strings to length 60 over "
    "the code page and over arbitrary Unicode. Structured and raw enumerations are disjoint by construction "
    "(counted; non-trivial = non-empty payload); random strings are counted by distinct text."
)
ASSUMPTIONS = [
    "the benign corpus covers every statement form the transpiler can emit; checked by a held-out set of random benign programs (a miss there is INCONCLUSIVE, not a verdict)",
    "identifier = any str-valued field of an AST node other than Constant.value/kind and type comments",
    "transpile() raising, or output that does not compile, is outside this property (counted as skips)",
]
MIN_COUNTERS = {
    "dict_code_cases": {"quick": 4000, "thorough": 20000},
    "inject_cases": {"quick": 5000, "thorough": 5000},
    # unchanged tree: quick ~230 k returned / ~228 k walked / ~460 k audit events; thorough ~3.7 M / 3.7 M / 7.4 M
    "transpile_returned": {"quick": 40000, "thorough": 600000},
    "walked": {"quick": 40000, "thorough": 600000},
    "audit_compile_events": {"quick": 80000, "thorough": 1200000},
    "model_units": {"quick": 1, "thorough": 1},
    "model_whitelist": {"quick": 80, "thorough": 80},       # statement forms learnt from the benign corpus (~446)
    "model_vocabulary": {"quick": 60, "thorough": 60},      # identifiers learnt (~345)
    "heldout_clean": {"quick": 1, "thorough": 1},   # 0 => the benign corpus missed a legitimate statement form
    "heldout_walked": {"quick": 250, "thorough": 1000},
}
UNIT_TIMEOUT = 900

# ---------------------------------------------------------------------------
# units
# ---------------------------------------------------------------------------

def units(tier, seed):
    u = [{"kind": "model"}, {"kind": "heldout", "seed": seed * 7919 + 1, "n": 1500 if tier == "quick" else 6000}]
    thorough = tier == "thorough"
    for pos in P.C18_POSITION_ORDER:
        u.append({"kind": "positions", "positions": [pos], "wrapper": "top", "maxlen": 3})
    for w in P.C18_WRAPPERS:
        if w == "top":
            continue
        if thorough:
            for pos in P.C18_POSITION_ORDER:
                u.append({"kind": "positions", "positions": [pos], "wrapper": w, "maxlen": 3})
        else:
            u.append({"kind": "positions", "positions": P.C18_POSITION_ORDER, "wrapper": w, "maxlen": 2})
    # a second 16-symbol alphabet for the positions whose text becomes an identifier:
    # attribute dot, call/assignment punctuation, non-ASCII and NFKC-foldable letters
    for pos in P.C18_NAME_POSITIONS:
        u.append({"kind": "positions", "positions": [pos], "wrapper": "top", "maxlen": 3, "ext": True})
    # classic break-out payloads: a short prefix of quote / escape characters, then a tail that would
    # complete a Python statement and comment out the rest
    for pos in P.C18_POSITION_ORDER:
        u.append({"kind": "inject", "position": pos})
    # dictionary codes inside string literals: decompressed *words* are program-chosen text too
    u.append({"kind": "dict", "part": "single"})
    for first in range(16):
        u.append({"kind": "dict", "part": "pairs", "slice": first, "of": 16, "stride": 1 if thorough else 4})
    # raw strings over the alphabet
    u.append({"kind": "raw", "lens": [0, 1, 2, 3]})
    for first in range(16):
        u.append({"kind": "raw", "lens": [4], "first": first})
    if thorough:
        for first in range(16):
            for second in range(16):
                u.append({"kind": "raw", "lens": [5], "first": first, "second": second})
        # length-4 payloads where the text becomes (part of) an identifier
        for pos in P.C18_NAME_POSITIONS + ["lambda-arity", "string-raw", "twochar"]:
            for first in range(16):
                u.append({"kind": "positions", "positions": [pos], "wrapper": "top", "len": 4, "first": first})
    # variants of transpile's own parameters (no dictionary compression, one-character variable names)
    for pos in ("string-raw", "string-escaped", "twochar"):
        u.append({"kind": "positions", "positions": [pos], "wrapper": "top", "maxlen": 3 if thorough else 2, "dict_compress": False})
    for pos in ("var-set", "var-get"):
        u.append({"kind": "positions", "positions": [pos], "wrapper": "top", "maxlen": 3 if thorough else 2, "digraphs": True})
    nrand = 12 if tier == "quick" else 300
    per = 1000 if tier == "quick" else 2000
    for i in range(nrand):
        u.append({"kind": "random", "alphabet": "codepage", "seed": seed * 100003 + 2 * i, "n": per})
        u.append({"kind": "random", "alphabet": "unicode", "seed": seed * 100003 + 2 * i + 1, "n": per})
        u.append({"kind": "random", "alphabet": "mixed", "seed": seed * 100003 + 500000 + i, "n": per})
    return u


# ---------------------------------------------------------------------------
# audit ride-along
# ---------------------------------------------------------------------------

_AUDIT = {"armed": False, "n": 0, "installed": False}


def _hook(event, args):
    if _AUDIT["armed"] and event == "compile":
        _AUDIT["n"] += 1


def setup_worker():
    import warnings

    warnings.filterwarnings("ignore", category=SyntaxWarning)  # "\\q" in generated string literals
    if not _AUDIT["installed"]:
        sys.addaudithook(_hook)
        _AUDIT["installed"] = True


# ---------------------------------------------------------------------------
# the model, measured on the tree under test
# ---------------------------------------------------------------------------

class Model:
    prefixes: list
    allowed_re: object
    vocabulary: set
    whitelist: set
    markers: set
    alphabet: list
    ext_alphabet: list
    stats: dict
    problems: list


_MODEL = None
_HEXTAIL = re.compile(r"[0-9a-f]{8,}$")


def _identifiers(tree):
    out = []
    for node in ast.walk(tree):
        if isinstance(node, ast.Constant):
            continue
        for f, v in ast.iter_fields(node):
            if f == "type_comment":
                continue
            if isinstance(v, str):
                out.append(v)
            elif isinstance(v, list):
                out.extend(x for x in v if isinstance(x, str))
    return out


def _compile(code):
    """-> ast.Module or None when the text is not a compilable module."""
    _AUDIT["armed"] = True
    try:
        tree = ast.parse(code, "<c18>")
        compile(tree, "<c18>", "exec")
        return tree
    except (SyntaxError, ValueError, RecursionError, MemoryError, OverflowError):
        return None
    finally:
        _AUDIT["armed"] = False


def _measure_prefixes(transpile, problems):
    """Which identifier prefixes does the transpiler put in front of
    program-chosen names and random ids? Measured, not assumed."""
    prefixes = set()
    name_programs = ["→{}", "←{}", "({}|1)", "@{};", "@{}:1|1;", "@{}|1;", "@f:{}|1;", "@f:1:{}|1;"]
    probes = [(t, "Abcde", "Abcdf") for t in name_programs] + [(t, "_Abcde", "_Abcdf") for t in name_programs]
    for tmpl, n1, n2 in probes:
        try:
            t1, t2 = _compile(transpile(tmpl.format(n1))), _compile(transpile(tmpl.format(n2)))
        except Exception as e:  # noqa
            problems.append(f"prefix probe {tmpl.format(n1)!r} raised {e!r}")
            continue
        if t1 is None or t2 is None:
            problems.append(f"prefix probe {tmpl.format(n1)!r} does not compile")
            continue
        i1, i2 = _identifiers(t1), _identifiers(t2)
        if len(i1) != len(i2):
            problems.append(f"prefix probe {tmpl.format(n1)!r}: identifier lists differ in length")
            continue
        found = False
        for a, b in zip(i1, i2):
            if a != b:
                found = True
                if a.endswith(n1) and b.endswith(n2) and a[: -len(n1)] == b[: -len(n2)]:
                    prefixes.add(a[: -len(n1)])
                else:
                    problems.append(f"prefix probe {tmpl.format(n1)!r}: {a!r} vs {b!r} is not prefix+name")
        if not found:
            problems.append(f"prefix probe {tmpl.format(n1)!r}: the name does not reach an identifier")
    for prog in ["λ1;", "(1)", "ƛ1;", "v+"]:
        t1, t2 = _compile(transpile(prog)), _compile(transpile(prog))
        if t1 is None or t2 is None:
            problems.append(f"id probe {prog!r} does not compile")
            continue
        for a, b in zip(_identifiers(t1), _identifiers(t2)):
            if a != b:
                pa, pb = _HEXTAIL.sub("", a), _HEXTAIL.sub("", b)
                if pa == pb and pa != a:
                    prefixes.add(pa)
                else:
                    problems.append(f"id probe {prog!r}: {a!r} vs {b!r} is not prefix+hex id")
    return prefixes


def model():
    """Build (once per worker) the whitelist, vocabulary, prefixes, markers."""
    global _MODEL
    if _MODEL is not None:
        return _MODEL
    from vyxal import elements as E
    from vyxal.transpile import transpile

    m = Model()
    m.problems = []
    prefixes = _measure_prefixes(transpile, m.problems)
    empty = [p for p in prefixes if p == ""]
    prefixes = sorted(p for p in prefixes if p)
    # minimal set: drop prefixes that extend another one (VAR_LOOP extends VAR_)
    prefixes = [p for p in prefixes if not any(q != p and p.startswith(q) for q in prefixes)]
    m.prefixes = prefixes
    if empty:
        m.problems.append("a program-chosen name reaches an identifier without any fixed prefix")
    m.allowed_re = re.compile("(?:" + "|".join(re.escape(p) for p in prefixes) + ")[A-Za-z0-9_]*" if prefixes else r"(?!x)x")
    m.vocabulary, m.whitelist = set(), set()
    m.markers = set()

    corpus = list(P.benign_structures())
    keys = list(E.elements)
    corpus += keys
    corpus += ["1 2" + k for k in keys[::7]] + ["λ" + k + ";" for k in keys[::5]] + ["(n|[1|" + k + "])" for k in keys[::3]]
    for mod in E.modifiers:
        corpus += [mod + "+", mod + "++", mod + "+++"]
    stats = {"corpus": len(corpus), "corpus_compiled": 0, "corpus_not_compiling": 0, "corpus_raised": 0}
    for prog in corpus:
        try:
            code = transpile(prog)
        except Exception:  # noqa
            stats["corpus_raised"] += 1
            continue
        tree = _compile(code)
        if tree is None:
            stats["corpus_not_compiling"] += 1
            continue
        stats["corpus_compiled"] += 1
        for st in _all_statements(tree.body):
            ids = []
            m.whitelist.add(_skeleton(st, m, ids))
            for i in ids:
                if not m.allowed_re.fullmatch(i):
                    m.vocabulary.add(i)
    # marker letters: identifier characters no vocabulary identifier uses
    used = set("".join(m.vocabulary))
    lower = next((c for c in "qzjxkwyvbgfhmpdulcnotraise" if c not in used), None)
    upper = next((c for c in "QZJXKWYVBGFHMPDULCNOTRAISE" if c not in used), None)
    digit = next((c for c in "9876543210" if c not in used), None)
    m.markers = {c for c in (lower, upper, digit) if c}
    if "_" not in used:
        m.markers.add("_")
    m.alphabet = P.C18_FIXED + [lower or "q", upper or "Q", digit or "9", "_"]
    m.ext_alphabet = P.C18_EXT_FIXED + [lower or "q", upper or "Q", digit or "9", "_"]
    stats.update({"whitelist": len(m.whitelist), "vocabulary": len(m.vocabulary), "prefixes": len(m.prefixes),
                  "markers": len(m.markers)})
    m.stats = stats
    _MODEL = m
    return m


_COMPOUND = (ast.FunctionDef, ast.AsyncFunctionDef, ast.ClassDef, ast.For, ast.AsyncFor, ast.While, ast.If, ast.With,
             ast.AsyncWith, ast.Try, ast.TryStar, ast.Match)


def _is_stmt_list(v):
    return isinstance(v, list) and len(v) > 0 and all(isinstance(x, ast.stmt) for x in v)


def _nested_lists(node):
    """Statement lists directly owned by a statement (statements only nest in
    statements, exception handlers and match cases, never in expressions)."""
    if not isinstance(node, _COMPOUND):
        return
    for _, v in ast.iter_fields(node):
        if isinstance(v, list) and v:
            if isinstance(v[0], ast.stmt):
                yield v
            elif isinstance(v[0], (ast.ExceptHandler, ast.match_case)):
                for h in v:
                    yield h.body


def _all_statements(stmts):
    for s in stmts:
        yield s
        for lst in _nested_lists(s):
            yield from _all_statements(lst)


def _skeleton(node, m, ids):
    """AST of one statement as text: constants -> C, prefixed identifiers ->
    '<prefix>*', nested statement lists -> '…'. Appends every identifier met
    to `ids`."""
    if isinstance(node, ast.Constant):
        v = node.value
        if isinstance(v, (str, int, float, complex)) and not isinstance(v, bool):
            return "C"
        return "Const:" + repr(v)
    parts = []
    for f, v in ast.iter_fields(node):
        if f == "type_comment":
            continue
        parts.append(f + "=" + _skel_field(v, m, ids))
    return type(node).__name__ + "(" + ",".join(parts) + ")"


def _skel_field(v, m, ids):
    if isinstance(v, list):
        if _is_stmt_list(v):
            return "[…]"
        return "[" + ",".join(_skel_field(x, m, ids) for x in v) + "]"
    if isinstance(v, str):
        ids.append(v)
        mt = m.allowed_re.fullmatch(v)
        if mt:
            for p in m.prefixes:
                if v.startswith(p):
                    return p + "*"
        return "'" + v + "'"
    if isinstance(v, ast.AST):
        return _skeleton(v, m, ids)
    return repr(v)


# ---------------------------------------------------------------------------
# the monitor
# ---------------------------------------------------------------------------

_MEMO = {}


def _stmt_head(st):
    """Short stable description of an offending statement (for mechanism tags)."""
    name = type(st).__name__
    if isinstance(st, (ast.Assign, ast.AugAssign, ast.AnnAssign)):
        tgt = st.targets[0] if isinstance(st, ast.Assign) else st.target
        val = st.value
        fn = ""
        if isinstance(val, ast.Call):
            f = val.func
            fn = f.id if isinstance(f, ast.Name) else (f.attr if isinstance(f, ast.Attribute) else type(f).__name__)
            fn = "=" + fn + "()"
        return f"{name}({type(tgt).__name__}){fn}"
    if isinstance(st, ast.Expr):
        v = st.value
        if isinstance(v, ast.Call):
            f = v.func
            fn = f.id if isinstance(f, ast.Name) else (f.attr if isinstance(f, ast.Attribute) else type(f).__name__)
            return f"Expr(Call {fn})"
        return f"Expr({type(v).__name__})"
    return name


def _subscript_root(node):
    while isinstance(node, ast.Subscript):
        node = node.value
    return node


def check_output(program, code, m, res, unit_for_replay, where):
    """The postcondition of transpile(program) == code. Returns 'skip',
    'held' or 'violated'."""
    c = res["counters"]
    tree = _compile(code)
    if tree is None:
        res["skips"]["output-does-not-compile (C02)"] = res["skips"].get("output-does-not-compile (C02)", 0) + 1
        return "skip"
    c["walked"] = c.get("walked", 0) + 1
    verdict = "held"
    lines = code.split("\n")
    nst = 0
    for st in _all_statements(tree.body):
        nst += 1
        # memo for simple statements: the same source text at the same columns
        # is the same statement (most lines are fixed template text)
        key = None
        if not isinstance(st, _COMPOUND):
            key = (tuple(lines[st.lineno - 1:st.end_lineno]), st.col_offset, st.end_col_offset)
            hit = _MEMO.get(key)
            if hit is not None:
                if hit is True:
                    continue
                sk, ids = hit
            else:
                ids = []
                sk = _skeleton(st, m, ids)
        else:
            ids = []
            sk = _skeleton(st, m, ids)
        foreign = [i for i in ids if i not in m.vocabulary and not m.allowed_re.fullmatch(i)]
        tainted = [i for i in ids if not m.allowed_re.fullmatch(i) and any(ch in m.markers for ch in i)]
        unknown_shape = sk not in m.whitelist
        if not (foreign or tainted or unknown_shape):
            if key is not None:
                if len(_MEMO) > 300000:
                    _MEMO.clear()
                _MEMO[key] = True
            continue
        if key is not None:
            _MEMO[key] = (sk, ids)
        verdict = "violated"
        offence = "tainted-identifier" if tainted else ("foreign-identifier" if foreign else "foreign-statement-shape")
        head = _stmt_head(st)
        mech = f"{offence}:{head}"
        c["violations_total"] = c.get("violations_total", 0) + 1
        c["viol:" + mech] = c.get("viol:" + mech, 0) + 1
        per = res["_per_mech"]
        per[mech] = per.get(mech, 0) + 1
        if per[mech] <= 2 and len(res["violations"]) < 40:
            try:
                src = ast.unparse(st).split("\n")[0][:200]
            except Exception:  # noqa
                src = "?"
            detail = {
                "mechanism": mech,
                "what": f"transpile({program!r}) emits `{src}`"
                        + (f": identifier(s) {sorted(set(tainted or foreign))!r} come from the program text" if (tainted or foreign)
                           else ": statement shape no benign program produces"),
                "unit": unit_for_replay(program),
                "program": program, "statement": src, "offence": offence, "stmt_head": head, "where": where,
                "foreign_identifiers": sorted(set(foreign))[:8], "tainted_identifiers": sorted(set(tainted))[:8],
                "unknown_shape": unknown_shape, "skeleton": sk[:400],
            }
            if isinstance(st, ast.Assign) and isinstance(st.targets[0], ast.Subscript):
                root = _subscript_root(st.targets[0])
                detail["subscript_root_prefixed"] = bool(isinstance(root, ast.Name) and m.allowed_re.fullmatch(root.id))
                val = st.value
                detail["value_is_pop_of_arg_stack"] = bool(
                    isinstance(val, ast.Call) and isinstance(val.func, ast.Name) and val.func.id == "pop"
                    and val.args and isinstance(val.args[0], ast.Name) and val.args[0].id == "arg_stack")
            res["violations"].append(detail)
        break  # one witness per program is enough
    c["statements_checked"] = c.get("statements_checked", 0) + nst
    return verdict


def run_program(program, m, res, unit_for_replay, where, dict_compress=True, digraphs=False):
    from lib.worker import Watchdog, watchdog
    from vyxal.transpile import transpile

    c = res["counters"]
    c["transpile_calls"] = c.get("transpile_calls", 0) + 1
    try:
        with watchdog(20):
            try:
                if dict_compress and not digraphs:
                    code = transpile(program)
                else:
                    code = transpile(program, dict_compress, digraphs)
            except Exception as e:  # noqa
                k = "transpile-raised:" + type(e).__name__
                res["skips"][k] = res["skips"].get(k, 0) + 1
                return "skip"
            if not isinstance(code, str):
                res["skips"]["transpile-returned-non-text"] = res["skips"].get("transpile-returned-non-text", 0) + 1
                return "skip"
            c["transpile_returned"] = c.get("transpile_returned", 0) + 1
            v = check_output(program, code, m, res, unit_for_replay, where)
    except Watchdog:
        res["inconclusive"].append({"why": "watchdog", "program": program})
        return "skip"
    if v != "skip":
        res["evals"] += 1
    return v


def _new_res():
    return {"evals": 0, "keys": [], "distinct": 0, "violations": [], "inconclusive": [], "skips": {},
            "counters": {}, "samples": [], "_per_mech": {}}


def run_unit(unit):
    res = _new_res()
    m = model()
    n0 = _AUDIT["n"]
    k = unit["kind"]
    if m.problems and k != "model":
        res["inconclusive"].append({"why": "model could not be measured: " + "; ".join(m.problems[:3])})
        res.pop("_per_mech")
        return res
    if k == "model":
        _run_model(unit, m, res)
    elif k == "heldout":
        _run_heldout(unit, m, res)
    elif k == "positions":
        _run_positions(unit, m, res)
    elif k == "raw":
        _run_raw(unit, m, res)
    elif k == "dict":
        _run_dict(unit, m, res)
    elif k == "inject":
        _run_inject(unit, m, res)
    elif k == "random":
        _run_random(unit, m, res)
    elif k == "single":
        run_program(unit["program"], m, res, lambda p: unit, "single",
                    dict_compress=unit.get("dict_compress", True), digraphs=unit.get("digraphs", False))
        res["distinct"] += 2
    res["counters"]["audit_compile_events"] = _AUDIT["n"] - n0
    res.pop("_per_mech", None)
    return res


def _single(unit):
    def f(program):
        u = {"kind": "single", "program": program}
        if unit.get("dict_compress") is False:
            u["dict_compress"] = False
        if unit.get("digraphs"):
            u["digraphs"] = True
        return u
    return f


def _run_model(unit, m, res):
    c = res["counters"]
    c["model_units"] = 1
    for k, v in m.stats.items():
        c["model_" + k] = v
    res["samples"].append({"prefixes": m.prefixes, "markers": sorted(m.markers), "alphabet": m.alphabet,
                           "whitelist_size": len(m.whitelist), "vocabulary_size": len(m.vocabulary)})
    for p in m.problems:
        # a program-chosen name that reaches an identifier with no fixed prefix is the property failing
        res["violations"].append({"mechanism": "model:" + p.split(":")[0][:40], "what": p, "unit": unit})
    # the benign corpus is, by construction, inside its own whitelist; run a few
    # members through the full monitor so that the unit observes real executions
    for prog in ["→abc", "@f:a:b|1;", "λ2|+;", "(n|[1|`q`])"]:
        run_program(prog, m, res, _single(unit), "model")
    res["distinct"] += 4


_HELD_FRAMES = [("[", "]"), ("[", "|1]"), ("[1|", "]"), ("[1|2|", "|3]"), ("(", ")"), ("(n|", ")"), ("(ab|", ")"), ("{", "}"),
                ("{", "|1}"), ("{1|", "}"), ("λ", ";"), ("λ2|", ";"), ("ƛ", ";"), ("'", ";"), ("µ", ";"), ("⟨", "⟩"),
                ("⟨1|", "⟩"), ("@fn|", ";"), ("@fn:a|", ";"), ("@fn:2:b:*|", ";"), ("v", ""), ("&", ""), ("~", ""), ("ß", ""),
                ("ƒ", ""), ("ɖ", ""), ("⁽", ""), ("₌+", ""), ("‡+", ""), ("₍+", ""), ("≬+-", "")]
_HELD_ATOMS = ["1", "23", "1.5", "`str`", "‛ab", "\\c", "«ab«", "»ab»", "⁺a", "→v", "←v", "→_g", "←_g", "@fn;", "#c\n", " ",
               "→", "←", "`a\"b`", "`a\\`b`", "1°2"]


def _run_heldout(unit, m, res):
    """Random *benign* programs: every statement they produce must already be
    in the whitelist. A miss means the corpus is incomplete (the monitor could
    raise false alarms): INCONCLUSIVE, never a verdict."""
    from vyxal import elements as E

    r = random.Random(unit["seed"])
    keys = list(E.elements)
    tmp = _new_res()

    def gen(depth):
        n = r.randint(1, 3)
        out = ""
        for _ in range(n):
            x = r.random()
            if depth > 0 and x < 0.45:
                o, cl = r.choice(_HELD_FRAMES)
                out += o + gen(depth - 1) + cl
            elif x < 0.75:
                out += r.choice(keys)
            else:
                out += r.choice(_HELD_ATOMS) + " "
        return out

    for _ in range(unit["n"]):
        prog = gen(r.randint(0, 4))
        run_program(prog, m, tmp, lambda p: {"kind": "single", "program": p}, "heldout")
    c = res["counters"]
    c["heldout_programs"] = unit["n"]
    c["heldout_walked"] = tmp["counters"].get("walked", 0)
    for k, v in tmp["skips"].items():
        res["skips"]["heldout:" + k] = v
    c["heldout_clean"] = 0 if tmp["violations"] else 1
    for w in tmp["violations"][:3]:
        res["inconclusive"].append({"why": "benign corpus incomplete (held-out benign program outside the whitelist)",
                                    "program": w["program"], "statement": w["statement"], "mechanism": w["mechanism"]})
    res["evals"] += tmp["evals"]
    res["distinct"] += 2


def _payloads(alphabet, unit):
    if "len" in unit:
        n = unit["len"]
        per = len(alphabet) ** (n - 1)
        for i in range(unit["first"] * per, (unit["first"] + 1) * per):
            yield P.nth_string(alphabet, n, i)
    else:
        for n in range(0, unit["maxlen"] + 1):
            yield from P.all_strings(alphabet, n)


def _run_positions(unit, m, res):
    dc, dg = unit.get("dict_compress", True), unit.get("digraphs", False)
    rep = _single(unit)
    alphabet = m.ext_alphabet if unit.get("ext") else m.alphabet
    for pos in unit["positions"]:
        for payload in _payloads(alphabet, unit):
            prog = P.c18_program(pos, unit["wrapper"], payload)
            v = run_program(prog, m, res, rep, pos, dc, dg)
            if v != "skip" and payload:
                # keep the enumeration disjoint: the escaped-string position repeats the raw one unless
                # something had to be escaped; the second alphabet shares six symbols with the first
                if pos == "string-escaped" and "`" not in payload and "\\" not in payload:
                    continue
                if unit.get("ext") and not any(ch in P.C18_EXT_FIXED[:10] for ch in payload):
                    continue
                res["distinct"] += 1
    res["counters"]["position_cases"] = res["counters"].get("transpile_calls", 0)
    res["samples"].append({"position": unit["positions"][0], "wrapper": unit["wrapper"], "ext_alphabet": bool(unit.get("ext")),
                           "program": P.c18_program(unit["positions"][0], unit["wrapper"], alphabet[0] + alphabet[13] + alphabet[5])})


BACKSLASH, DQ, SQ, NL, CR, BQ = chr(92), chr(34), chr(39), chr(10), chr(13), chr(96)


def _run_inject(unit, m, res):
    import itertools

    rep = _single(unit)
    mk = sorted(m.markers)
    q = mk[0] if mk else "Q"
    tails = [");" + q + "#", ")#", ";" + q + "#", "+" + q + "#", NL + q + "#", ")" + NL + q + "(", "]" + q + "#",
             "=" + q + "#", "." + q + "#", "," + q + ")#", ":" + q + "#", " " + q + "#"]
    breakers = [DQ, SQ, BACKSLASH, NL, BQ, CR]
    prefixes = [""] + breakers + ["".join(t) for t in itertools.product(breakers, repeat=2)] + \
               [BACKSLASH * 2 + DQ, DQ * 3, SQ * 3, BACKSLASH + DQ + BACKSLASH]
    # a fuzzing dictionary of multi-character tokens: the generated code's own identifier prefixes (text
    # that already looks sanitised) and vocabulary, and every way Python spells a breaker inside a literal
    escapes = ["x22", "x27", "x5c", "x0a", "x0d", "42", "047", "134", "12", "u0022", "U00000022",
               "N{QUOTATION MARK}", "N{APOSTROPHE}", "N{REVERSE SOLIDUS}", "x2", "u002", "N{"]
    words = sorted(m.prefixes) + [w for w in ("stack", "ctx", "pop", "lambda", "VAR", "LOOP") if w not in m.prefixes]
    tokens = [BACKSLASH + e for e in escapes] + [BACKSLASH * 2 + e for e in escapes[:6]] + words + \
             [w.lower() for w in sorted(m.prefixes)]
    pos = unit["position"]
    c = res["counters"]
    forms = [lambda pre, tail: pre + tail,
             # the tail as a string / character token inside whatever the position is (names are joined
             # from the values of all tokens of their branch)
             lambda pre, tail: pre + BQ + tail + BQ,
             lambda pre, tail: pre + BACKSLASH + tail[0] + BQ + tail[1:] + BQ]
    for pre in prefixes + tokens:
        for tail in tails:
            for fi, form in enumerate(forms):
                if fi and pre in prefixes and pre:
                    continue  # the quoted forms only with the empty prefix and the dictionary tokens
                payload = form(pre, tail)
                for wrapper in ("top", "for-if"):
                    if wrapper not in P.C18_WRAPPERS:
                        continue
                    prog = P.c18_program(pos, wrapper, payload)
                    run_program(prog, m, res, rep, "inject:" + pos)
                    c["inject_cases"] = c.get("inject_cases", 0) + 1
    res["distinct"] += (len(prefixes) + 3 * len(tokens)) * len(tails)
    res["samples"].append({"inject_program": P.c18_program(pos, "top", BACKSLASH + DQ + tails[0])})


def _run_dict(unit, m, res):
    """String literals made of dictionary-compression codes (one code in short-dictionary position, or a
    two-character code) followed by a hostile tail built from the marker letters: whatever the dictionary
    expands to (some entries contain quotes) must still end up inside one string constant."""
    from vyxal import encoding

    rep = _single(unit)
    codes = list(encoding.compression)
    mk = sorted(m.markers)
    q = mk[0] if mk else "Q"
    tails = [");" + q + "(#", "+" + q + ")#", " " + q]
    c = res["counters"]
    if unit["part"] == "single":
        for ch in codes:
            for tail in tails:
                for prog in ("`" + ch + tail + "`", "`" + ch + " " + tail + "`", "`a" + ch + tail + "`", "‛" + ch + tail[0]):
                    run_program(prog, m, res, rep, "dict-code")
                    c["dict_code_cases"] = c.get("dict_code_cases", 0) + 1
        res["distinct"] += len(codes)
    else:
        pairs = [(a, b) for a in codes for b in codes]
        pairs = pairs[unit["slice"]::unit["of"]][::unit.get("stride", 1)]
        for a, b in pairs:
            run_program("`" + a + b + tails[0] + "`", m, res, rep, "dict-code")
            c["dict_code_cases"] = c.get("dict_code_cases", 0) + 1
        res["distinct"] += len(pairs)
    res["samples"].append({"dict_program": "`" + codes[5] + tails[0] + "`"})


def _run_raw(unit, m, res):
    rep = _single(unit)
    a = m.alphabet
    for n in unit["lens"]:
        if "first" in unit:
            if "second" in unit:
                per = len(a) ** (n - 2)
                lo = (unit["first"] * len(a) + unit["second"]) * per
            else:
                per = len(a) ** (n - 1)
                lo = unit["first"] * per
            it = (P.nth_string(a, n, i) for i in range(lo, lo + per))
        else:
            it = P.all_strings(a, n)
        for s in it:
            v = run_program(s, m, res, rep, "raw")
            if v != "skip" and s:
                res["distinct"] += 1
    res["counters"]["raw_cases"] = res["counters"].get("transpile_calls", 0)


_UNI_POOL = None


def _unicode_pool(codepage):
    global _UNI_POOL
    if _UNI_POOL is None:
        pool = []
        pool += list(codepage)
        pool += list("0123456789٠١٢٣٤٥٦٧٨٩०१२३²³¹½⅓Ⅷ㊿𝟘𝟙𝟚")          # digits / numerics of many scripts
        pool += ["\u0301", "\u0308", "\u20e3", "\ufe0f", "\u200d", "\u200b", "\u00ad", "\ufeff"]  # combining / invisible
        pool += ["\n", "\r", "\x0b", "\x0c", "\x1c", "\x1d", "\x1e", "\x85", "\u2028", "\u2029", "\t", "\x00"]  # line separators
        pool += list("ａｂｃＡＢＣ＿ªºµᵃⁱₐℂℕ𝐚𝒃𝔠")                       # NFKC-foldable identifier characters
        pool += list("αβγДЖ中文字한글עברית")                            # letters
        pool += list("\"'\\`[](){}^:;@|λ→←‛«»#⁺,.=+-*/%!~&<>?$_ ")
        pool += ["\ud800", "\udfff", "\U0010ffff", "\U000e0001", "\x7f", "\x1b"]
        _UNI_POOL = pool
    return _UNI_POOL


def _run_random(unit, m, res):
    from lib.harness import short_hash
    from vyxal import encoding

    r = random.Random(unit["seed"])
    cp = encoding.codepage
    rep = _single(unit)
    kind = unit["alphabet"]
    hostile = list(m.alphabet) + list("@:|;λ→←(‛`\\[]") * 2 + list(".,= ")
    seen = set()
    for i in range(unit["n"]):
        n = r.choice([1, 2, 3, 5, 8, 13, 21, 34, 60]) if r.random() < 0.5 else r.randint(1, 60)
        if kind == "codepage":
            s = "".join(r.choice(cp) for _ in range(n))
        elif kind == "unicode":
            pool = _unicode_pool(cp)
            s = "".join(r.choice(pool) if r.random() < 0.85 else chr(r.choice([r.randint(0, 0x2FF), r.randint(0x300, 0xFFFF), r.randint(0x10000, 0x10FFFF)]))
                        for _ in range(n))
        else:
            # code page text with the adversarial alphabet and name-introducing syntax mixed in
            s = "".join(r.choice(hostile) if r.random() < 0.6 else r.choice(cp) for _ in range(n))
        # every fourth random text goes through one of the other settings of transpile's own parameters
        dc, dg = ((True, False), (True, False), (True, True), (False, False), (True, False), (True, False),
                  (False, True), (True, True))[i % 8]
        if (dc, dg) == (True, False):
            v = run_program(s, m, res, rep, "random-" + kind)
        else:
            uu = dict(unit, dict_compress=dc, digraphs=dg)
            v = run_program(s, m, res, _single(uu), "random-" + kind + "-params", dict_compress=dc, digraphs=dg)
            res["counters"]["random_cases_other_parameters"] = res["counters"].get("random_cases_other_parameters", 0) + 1
        if v != "skip" and len(s) > 1 and s not in seen:
            seen.add(s)
            res["keys"].append(short_hash(s))
        if i == 0:
            res["samples"].append({"random": kind, "program": s, "verdict": v})
    res["counters"]["random_cases_" + kind] = unit["n"]


def classify(w):
    # named function parameter keeps [ \ ] ^ ` (regex class A-z): `VAR_a[q] = pop(arg_stack, ...)`
    if (w.get("stmt_head") == "Assign(Subscript)=pop()" and w.get("subscript_root_prefixed")
            and w.get("value_is_pop_of_arg_stack")):
        return "C18-parameter-name-subscript"
    return None


def finalize(agg, tier):
    return {"exhaustive": False,
            "exhaustive_scope": "payload length <= 3 at 22 positions (top level) and all raw strings of length <= 4 are enumerated completely; random parts are sampled"}
