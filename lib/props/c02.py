"""C02 — every well-formed program transpiles to Python that compiles.

Deciding monitor: an icontract postcondition on `vyxal.transpile.transpile`
("the returned text compiles"), installed in every `vyxal.*` namespace that
holds a reference to the function. A call that raises for a well-formed
program is a violation too. Programs are well-formed by construction (G-full
builds an AST and serialises it; lib/gen/full.py), never by asking the repo's
parser.

`install_monitor()` is reusable: other checks that transpile can call it to
have the same postcondition ride along (it returns the shared MON record).
"""
from __future__ import annotations

import random
import re
import warnings

ID = "C02"
LEVEL = "exploration"
DESIGN_REF = "DESIGN.md §1 C02"
RULE = (
    "programs are derived from the documented grammar by G-full (AST first, then text, closed and with "
    "trailing closers omitted): (i) every element key and every modifier in ~50 syntactic positions "
    "(top level, each if branch, for/while/lambda/map/filter/sort/list/function bodies, while condition, "
    "every operand slot of monadic/dyadic/triadic modifiers, after each multi-line template, two "
    "structures deep), (ii) break/recurse in every parent and every nesting of two parents, (iii, thorough) "
    "all ASTs of <= 5 symbols over the 14-symbol alphabet [ ( { λ ƛ ⟨ @f | closer X x v ₌ † with every "
    "end-truncation, (iv) random G-full programs of depth <= 4. An evaluation is one run of the "
    "postcondition (or one observed raise of transpile). distinct_nontrivial counts distinct program "
    "texts with at least one token that reached the monitor."
)
ASSUMPTIONS = [
    "well-formed = derivable by lib/gen/full.py from documents/specs (Lexer.md, Structures.md, Parser.md); "
    "excluded as outside the grammar: a lambda with an EMPTY arity branch (`λ|…;`), a modifier with fewer "
    "operands than its arity left in its branch, characters outside the code page",
    "mechanism tags come from a greedy AST shrinker that re-executes transpile+compile (tagging only; "
    "the verdict is the postcondition)",
    "dict_compress=False (flag D) is exercised on a tenth of the random programs",
]
MIN_COUNTERS = {
    "name_programs": {"quick": 3000, "thorough": 3000},
    "contract_evaluations": {"quick": 20000, "thorough": 200000},
    "element_keys_in_positions": {"quick": 75, "thorough": 75},
    "brkrec_programs": {"quick": 600, "thorough": 600},
    "random_programs": {"quick": 3000, "thorough": 30000},
    "parameter_programs": {"quick": 1000, "thorough": 1000},
    "noop_programs": {"quick": 5000, "thorough": 5000},
}
UNIT_TIMEOUT = 900

N_POS_UNITS = 48
N_BRK_UNITS = 8
N_ENUM_UNITS = 64
RANDOM_PER_UNIT = {"quick": 250, "thorough": 1000}
RANDOM_TOTAL = {"quick": 20000, "thorough": 200000}
HOSTILE_TOTAL = {"quick": 1000, "thorough": 10000}
ENUM_BUDGET = 5


# ------------------------------------------------------------------ monitor
class OutputDoesNotCompile(Exception):
    """Raised by the postcondition on transpile."""

    def __init__(self, detail):
        super().__init__(detail)
        self.detail = detail


MON = {"installed": False, "evaluations": 0, "failures": 0, "rebinds": 0, "orig": None, "wrapped": None,
       "last": None}


def compile_problem(code):
    """None if `code` compiles, else (kind, message)."""
    try:
        with warnings.catch_warnings():
            warnings.simplefilter("ignore")
            compile(code, "<vy>", "exec")
    except (SyntaxError, ValueError) as e:  # IndentationError/TabError are SyntaxErrors; ValueError: NUL bytes
        return (type(e).__name__, getattr(e, "msg", None) or str(e))
    return None


def result_compiles(result) -> bool:
    MON["evaluations"] += 1
    if not isinstance(result, str):
        MON["last"] = ("TypeError", f"transpile returned {type(result).__name__}")
        MON["failures"] += 1
        return False
    prob = compile_problem(result)
    if prob is not None:
        MON["last"] = prob
        MON["failures"] += 1
        return False
    return True


def result_does_not_compile_error(result):
    return OutputDoesNotCompile(MON["last"])


def install_monitor():
    """Wrap transpile with the postcondition and rebind it everywhere."""
    if MON["installed"]:
        return MON
    import sys

    from lib import env

    env.ensure_deps()
    import icontract

    import vyxal.transpile as T

    orig = T.transpile
    wrapped = icontract.ensure(result_compiles, error=result_does_not_compile_error)(orig)
    n = 0
    for name, mod in list(sys.modules.items()):
        if mod is None or not (name == "vyxal" or name.startswith("vyxal.")):
            continue
        for attr, val in list(vars(mod).items()):
            if val is orig:
                setattr(mod, attr, wrapped)
                n += 1
    MON.update(installed=True, orig=orig, wrapped=wrapped, rebinds=n)
    return MON


def setup_worker():
    warnings.simplefilter("ignore", SyntaxWarning)
    install_monitor()


# ------------------------------------------------------------------ units
def units(tier, seed):
    u = []
    per = RANDOM_PER_UNIT[tier]
    for i in range(RANDOM_TOTAL[tier] // per):
        u.append({"kind": "random", "seed": seed * 1000003 + i, "n": per, "payload": "benign"})
    for i in range(HOSTILE_TOTAL[tier] // per):
        u.append({"kind": "random", "seed": seed * 1000003 + 500000 + i, "n": per, "payload": "hostile"})
    for p in range(N_POS_UNITS):
        u.append({"kind": "positions", "part": p, "of": N_POS_UNITS, "tier": tier})
    for m in "v⁽&~ßƒɖ₌‡₍≬":
        u.append({"kind": "modifiers", "mod": m, "tier": tier})
    for p in range(N_BRK_UNITS):
        u.append({"kind": "brkrec", "part": p, "of": N_BRK_UNITS, "tier": tier})
    if tier == "thorough":
        for p in range(N_ENUM_UNITS):
            u.append({"kind": "enum", "part": p, "of": N_ENUM_UNITS})
    for p in range(4):
        u.append({"kind": "names", "part": p, "of": 4})
    u.append({"kind": "params"})
    for p in range(4):
        u.append({"kind": "noops", "part": p, "of": 4})
    return u


# ------------------------------------------------------------------ contexts
def _contexts(F, multiline):
    """[(name, fn(hole_node) -> ast)] — the syntactic positions of workload (i)."""
    one = lambda: F.Lit("num", "1")  # noqa
    two = lambda: F.Lit("num", "2")  # noqa
    plus = lambda: F.Elem("+")  # noqa
    C = [
        ("top", lambda h: [h]),
        ("top-between", lambda h: [one(), h, plus()]),
        ("if-true", lambda h: [F.If([[h]])]),
        ("if-else", lambda h: [F.If([[one()], [h]])]),
        ("elif-cond", lambda h: [F.If([[one()], [h], [two()]])]),
        ("elif-body", lambda h: [F.If([[one()], [two()], [h]])]),
        ("if-4-else", lambda h: [F.If([[one()], [two()], [one()], [h]])]),
        ("if-5-second-elif-body", lambda h: [F.If([[one()], [two()], [one()], [two()], [h]])]),
        ("if-6-else", lambda h: [F.If([[one()], [two()], [one()], [two()], [one()], [h]])]),
        ("if-7-third-elif-cond", lambda h: [F.If([[one()], [two()], [one()], [two()], [one()], [h], [two()]])]),
        ("for-body", lambda h: [F.For(None, [h])]),
        ("for-named", lambda h: [F.For("i", [h])]),
        ("while-cond", lambda h: [F.While([h], [one()])]),
        ("while-body", lambda h: [F.While([one()], [h])]),
        ("while-nocond", lambda h: [F.While(None, [h])]),
        ("lambda", lambda h: [F.Lam(None, [h])]),
        ("lambda-arity", lambda h: [F.Lam(2, [h])]),
        ("map", lambda h: [F.LamOp("ƛ", [h])]),
        ("filter", lambda h: [F.LamOp("'", [h])]),
        ("sort", lambda h: [F.LamOp("µ", [h])]),
        ("list-item", lambda h: [F.ListLit([[h]])]),
        ("list-item-2", lambda h: [F.ListLit([[one()], [h]])]),
        ("function-body", lambda h: [F.FnDef("f", ["1"], [h])]),
        ("function-body-params", lambda h: [F.FnDef("g", ["a", "*", "2"], [h])]),
        ("before-in-for", lambda h: [F.For(None, [h, plus()])]),
        ("before-in-if", lambda h: [F.If([[h, one()], [two()]])]),
        ("before-in-lambda", lambda h: [F.Lam(None, [h, plus()])]),
        ("for>lambda", lambda h: [F.For(None, [F.Lam(None, [h])])]),
        ("if>while", lambda h: [F.If([[F.While(None, [h])]])]),
        ("lambda>for", lambda h: [F.Lam(None, [F.For(None, [h])])]),
        ("function>list", lambda h: [F.FnDef("f", [], [F.ListLit([[h]])])]),
        ("list>map", lambda h: [F.ListLit([[F.LamOp("ƛ", [h])]])]),
        ("while>if-else", lambda h: [F.While([one()], [F.If([[one()], [h]])])]),
        ("for>v", lambda h: [F.For(None, [F.Mod("v", [h], None)])]),
        ("lambda>₌", lambda h: [F.Lam(None, [F.Mod("₌", [h, plus()], None)])]),
        ("v>lambda", lambda h: [F.Mod("v", [F.Lam(None, [h])], None)]),
    ]
    for m in F.MONADIC:
        C.append((f"mod-{m}", (lambda m: lambda h: [F.Mod(m, [h], None)])(m)))
    for m in F.DYADIC:
        C.append((f"mod-{m}-A", (lambda m: lambda h: [F.Mod(m, [h, plus()], None)])(m)))
        C.append((f"mod-{m}-B", (lambda m: lambda h: [F.Mod(m, [plus(), h], None)])(m)))
    for m in F.TRIADIC:
        C.append((f"mod-{m}-A", (lambda m: lambda h: [F.Mod(m, [h, plus(), plus()], None)])(m)))
        C.append((f"mod-{m}-B", (lambda m: lambda h: [F.Mod(m, [plus(), h, plus()], None)])(m)))
        C.append((f"mod-{m}-C", (lambda m: lambda h: [F.Mod(m, [plus(), plus(), h], None)])(m)))
    for ml in multiline:
        C.append((f"after-{ml}-in-for", (lambda ml: lambda h: [F.For(None, [F.Elem(ml), h])])(ml)))
        C.append((f"after-{ml}-in-lambda", (lambda ml: lambda h: [F.Lam(None, [F.Elem(ml), h])])(ml)))
    return C


def _parents(F):
    """[(name, fn(body) -> node)] — the parents of workload (ii)."""
    one = lambda: F.Lit("num", "1")  # noqa
    plus = lambda: F.Elem("+")  # noqa
    return [
        ("if", lambda b: F.If([b])),
        ("else", lambda b: F.If([[one()], b])),
        ("elif-cond", lambda b: F.If([[one()], b, [one()]])),
        ("for", lambda b: F.For(None, b)),
        ("for-named", lambda b: F.For("i", b)),
        ("while-cond", lambda b: F.While(b, [one()])),
        ("while-body", lambda b: F.While([one()], b)),
        ("while-nocond", lambda b: F.While(None, b)),
        ("lambda", lambda b: F.Lam(None, b)),
        ("lambda-arity", lambda b: F.Lam(2, b)),
        ("map", lambda b: F.LamOp("ƛ", b)),
        ("filter", lambda b: F.LamOp("'", b)),
        ("sort", lambda b: F.LamOp("µ", b)),
        ("list-item", lambda b: F.ListLit([b])),
        ("list-item-2", lambda b: F.ListLit([[one()], b])),
        ("function", lambda b: F.FnDef("f", [], b)),
        ("function-params", lambda b: F.FnDef("g", ["2", "a"], b)),
    ]


def _mod_wrappers(F):
    """single-node wrappers: the node becomes a modifier operand"""
    plus = lambda: F.Elem("+")  # noqa
    out = []
    for m in F.MONADIC:
        out.append((f"{m}", (lambda m: lambda n: F.Mod(m, [n], None))(m)))
    for m in F.DYADIC:
        out.append((f"{m}A", (lambda m: lambda n: F.Mod(m, [n, plus()], None))(m)))
        out.append((f"{m}B", (lambda m: lambda n: F.Mod(m, [plus(), n], None))(m)))
    for m in F.TRIADIC:
        out.append((f"{m}A", (lambda m: lambda n: F.Mod(m, [n, plus(), plus()], None))(m)))
        out.append((f"{m}C", (lambda m: lambda n: F.Mod(m, [plus(), plus(), n], None))(m)))
    return out


# ------------------------------------------------------------------ diagnosis
def _norm_msg(kind, msg):
    msg = str(msg)
    msg = re.sub(r"\(<vy>, line \d+\)", "", msg)
    msg = re.sub(r"line \d+", "line N", msg)
    msg = re.sub(r"position \d+(-\d+)?", "position N", msg)
    msg = re.sub(r"\d+", "N", msg)
    return f"{kind}: {msg.strip()[:120]}"


def probe(text, dc=True):
    """Unmonitored run (used for shrinking/tagging only): category or None."""
    try:
        code = MON["orig"](text, dc) if dc is not True else MON["orig"](text)
    except RecursionError:
        return None
    except Exception as e:  # noqa
        return "raise " + _norm_msg(type(e).__name__, e)
    prob = compile_problem(code)
    if prob is None:
        return None
    return "nocompile " + _norm_msg(*prob)


def diagnose(F, ast, drop, dc, category, budget):
    """Shrink the AST while the same category of failure persists and derive a
    mechanism tag from the minimal program."""

    def still(a):
        s = F.serialise_full(a)
        d = 0 if drop == 0 else s.droppable
        t = s.text[: len(s.text) - d] if d else s.text
        if not F.self_check(t, F._tokens_after_drop(s, d)):
            return False
        budget[0] -= 1
        return probe(t, dc) == category

    if budget[0] > 0:
        m = F.shrink(ast, still, max_trials=min(200, budget[0]))
        shrunk = True
    else:
        m = ast
        shrunk = False
    s = F.serialise_full(m)
    d = 0 if drop == 0 else s.droppable
    text = s.text[: len(s.text) - d] if d else s.text
    mech, subject = _mechanism(F, m, category, dc, shrunk)
    if subject is None and shrunk and mech.startswith(category):
        # a literal whose whole value is a one-character syntax value (C03's defect class):
        # confirmed by execution — the same program with that payload replaced by `a` is fine
        hostile = [n for n, _ in F.walk(m) if isinstance(n, F.Lit) and n.payload in F.SYNTAX_VALUES]
        if hostile:
            m2 = F.from_json(F.to_json(m))
            for n, _ in F.walk(m2):
                if isinstance(n, F.Lit) and n.payload in F.SYNTAX_VALUES:
                    n.payload = "a"
            s2 = F.serialise_full(m2)
            d2 = 0 if drop == 0 else s2.droppable
            t2 = s2.text[: len(s2.text) - d2] if d2 else s2.text
            if probe(t2, dc) is None:
                mech, subject = "literal-value-read-as-syntax", sorted(n.payload for n in hostile)[0]
    return m, d, text, mech, subject


def _mechanism(F, m, category, dc, shrunk):
    nodes = list(F.walk(m))
    n = len(nodes)
    if not shrunk:
        return "unshrunk " + category, None
    if n == 1 and isinstance(m[0], F.Elem):
        return "element-template:" + m[0].key, m[0].key
    if n <= 4 and ("'break' outside loop" in category or "'continue' not properly in loop" in category):
        for node, path in nodes:
            if isinstance(node, (F.Brk, F.Rec)):
                labels = [lab for _, lab in path]
                kinds = [type(a).__name__ for a, _ in path]
                which = "break" if isinstance(node, F.Brk) else "recurse"
                inner = labels[-1] if labels else ""
                if inner.startswith("list.") and any(k in ("For", "While") for k in kinds[:-1]) and all(
                        k in ("For", "While", "ListLit", "If") for k in kinds):
                    return "break-or-continue-in-list-item-in-loop", which
                if inner == "while.cond" and all(k in ("While", "If") for k in kinds) and n <= 3:
                    return "break-or-continue-in-while-condition", which
    lits = [node for node, _ in nodes if isinstance(node, F.Lit)]
    if n <= 2 and lits and "unicodeescape" in category and lits[0].kind in ("str", "str2"):
        mm = re.search(r"\\(.)", lits[0].payload)
        return "string-backslash-python-escape", (mm.group(1) if mm else None)
    if n <= 2 and lits and dc is False and "unterminated string literal" in category and lits[0].kind == "str2" \
            and lits[0].payload.endswith("\\"):
        return "string-trailing-backslash-flag-D", None
    return category + " @ " + F.skeleton(m), None


def classify(w):
    m = w.get("mechanism")
    if m == "element-template:¨…":
        return "C02-element-template-¨…"
    if m == "break-or-continue-in-list-item-in-loop":
        return "C02-break-recurse-in-list-item-in-loop"
    if m == "break-or-continue-in-while-condition":
        return "C02-break-recurse-in-while-condition"
    if m == "string-backslash-python-escape":
        return "C02-string-backslash-python-escape"
    if m == "string-trailing-backslash-flag-D":
        return "C02-string-trailing-backslash-flag-D"
    if m == "literal-value-read-as-syntax":
        return "C02-literal-value-read-as-syntax"
    return None


# ------------------------------------------------------------------ running cases
class Run:
    def __init__(self, F, unit):
        from lib.harness import short_hash

        self.F = F
        self.unit = unit
        self.hash = short_hash
        self.res = {"evals": 0, "keys": [], "violations": [], "inconclusive": [], "skips": {}, "counters": {},
                    "samples": []}
        self.c = self.res["counters"]
        self.sigs = {}
        self.budget = [8000]
        self.seen = set()

    def count(self, name, n=1):
        self.c[name] = self.c.get(name, 0) + n

    def skip(self, why):
        self.res["skips"][why] = self.res["skips"].get(why, 0) + 1

    def observe(self, text, dc=True):
        """One monitored execution. Returns None | category."""
        from lib.worker import Watchdog, watchdog
        import vyxal.transpile as T

        before = MON["evaluations"]
        cat = None
        try:
            with watchdog(20):
                if dc is True:
                    T.transpile(text)
                else:
                    T.transpile(text, dc)
        except OutputDoesNotCompile as e:
            cat = "nocompile " + _norm_msg(*e.detail)
        except Watchdog:
            self.res["inconclusive"].append({"why": "watchdog", "program": text})
            return "inconclusive"
        except (RecursionError, MemoryError) as e:
            self.res["inconclusive"].append({"why": type(e).__name__, "program": text})
            return "inconclusive"
        except Exception as e:  # noqa
            cat = "raise " + _norm_msg(type(e).__name__, e)
            self.count("transpile_raised")
            self.res["evals"] += 1
        evald = MON["evaluations"] - before
        self.res["evals"] += evald
        self.count("contract_evaluations", evald)
        if cat is None and evald == 0:
            self.res["inconclusive"].append({"why": "postcondition not evaluated", "program": text})
            return "inconclusive"
        return cat

    def check_ast(self, ast, drops="all", dcs=(True,), origin=None):
        F = self.F
        s = F.serialise_full(ast)
        if not F.self_check(s.text, s.tokens):
            self.count("generator_selfcheck_discarded")
            return
        if drops == "all":
            ks = list(range(0, s.droppable + 1))
        elif drops == "ends":
            ks = sorted({0, s.droppable})
        elif drops == "closed":
            ks = [0]
        else:
            ks = [k for k in drops if 0 <= k <= s.droppable]
        for k in ks:
            text = s.text[: len(s.text) - k] if k else s.text
            toks = F._tokens_after_drop(s, k)
            if k and not F.self_check(text, toks):
                self.count("generator_selfcheck_discarded")
                continue
            if F.repo_tokens(text) != toks:
                self.count("repo_lexer_differs_from_intended")
            for dc in dcs:
                cat = self.observe(text, dc)
                if cat == "inconclusive":
                    continue
                if toks:
                    h = self.hash([text, dc])
                    if h not in self.seen:
                        self.seen.add(h)
                        self.res["keys"].append(h)
                if k:
                    self.count("truncated_programs")
                if cat is not None:
                    self.violation(ast, k, dc, text, cat, origin)
        if len(self.res["samples"]) < 1 and len(s.tokens) > 3:
            self.res["samples"].append({"program": s.text, "droppable_closers": s.droppable, "origin": origin})

    def violation(self, ast, drop, dc, text, cat, origin):
        F = self.F
        self.count("violating_programs")
        m, d, mtext, mech, subject = diagnose(F, ast, drop, dc, cat, self.budget)
        sig = (mech, str(subject))
        if sig in self.sigs:
            self.sigs[sig]["also"] += 1
            return
        if len(self.sigs) >= 20:
            self.count("violations_beyond_witness_cap")
            return
        w = {
            "mechanism": mech,
            "subject": subject,
            "what": f"transpile({mtext!r}{'' if dc is True else ', dict_compress=False'}) -> {cat}; "
                    f"expected Python that compiles",
            "unit": {"kind": "ast", "ast": F.to_json(m), "drop": d, "dc": dc},
            "program": mtext,
            "error": cat,
            "found_in": text,
            "origin": origin,
            "also": 0,
        }
        self.sigs[sig] = w
        self.res["violations"].append(w)


def run_unit(unit):
    from lib.gen import full as F

    if not MON["installed"]:
        install_monitor()
    R = Run(F, unit)
    if MON["rebinds"] < 1:
        R.res["inconclusive"].append({"why": f"transpile rebound in only {MON['rebinds']} namespaces"})
    table = F.Table.from_repo()
    kind = unit["kind"]

    if kind == "ast":
        ast = F.from_json(unit["ast"])
        R.check_ast(ast, drops=[unit.get("drop", 0)], dcs=(unit.get("dc", True),), origin="replay")

    elif kind == "names":
        # names (function, parameter, loop variable) written with every code-page character that is
        # not itself structure syntax: the sanitisers must leave something Python accepts
        from vyxal import encoding

        unsafe = set("|;:*[](){}@λƛ'µ⟨⟩`«»‛\\#\n→←k∆øÞ¨⁺ .°0123456789")
        chars = [ch for ch in encoding.codepage if ch not in unsafe][unit["part"]::unit["of"]]
        one = F.Lit("num", "1")
        for ch in chars:
            for name in ("a" + ch, ch + "b", "a" + ch + "b", ch, ch + ch):
                for ast in ([F.FnDef(name, ["1"], [F.Elem("+")])], [F.FnDef(name, [], [one])], [F.FnCall(name)],
                            [F.For(name, [F.Elem("+")])], [F.FnDef("f", [name], [F.Elem("+")])],
                            [F.FnDef("f", ["2", name], [one])], [F.For(None, [F.FnCall(name)])]):
                    R.check_ast(ast, drops="all", origin="name with code-page character")
                    R.count("name_programs")

    elif kind == "params":
        # every spelling the header of a function, lambda or loop can carry between `:`/`|`:
        # counts with leading zeros, names with digits, `*`, empty, decimals (read as names)
        sp = ["0", "00", "01", "007", "010", "1", "2", "9", "10", "12", "99", "100", "1a", "a1", "a", "ab", "_",
              "a_", "_1", "*", "", "1.", ".5", "1.5", "°", "a.b", "**", "*a", "a*", "1*", "²", "0a", "00a", "0_"]
        one = F.Lit("num", "1")
        for a in sp:
            for ast in ([F.FnDef("f", [a], [F.Elem("+")])], [F.FnDef("f", ["2", a], [one])],
                        [F.FnDef("f", [a, "b"], [one])], [F.FnDef("f", [a, a], [F.Elem("+")])],
                        [F.FnDef("f", [a, "*", a], [])], [F.For(a, [F.Elem("+")])],
                        [F.For(None, [F.FnDef("f", [a], [F.Elem("+")])])],
                        [F.Lam(None, [F.If([[one], [F.FnDef("f", [a], [one])]])])]):
                R.check_ast(ast, drops="all", origin="parameter spelling")
                R.count("parameter_programs")
            if a.isascii() and a.isdecimal():
                # a lambda's arity must be an integer (anything else is a documented parse error)
                R.check_ast([F.Lam(a, [F.Elem("+")])], drops="all", origin="lambda arity spelling")
                R.check_ast([F.For(None, [F.Lam(a, [F.Elem("+")]), F.Elem("M")])], drops="all", origin="lambda arity spelling")
                R.count("parameter_programs", 2)
            for b in sp:
                R.check_ast([F.FnDef("f", [a, b], [F.Elem("+")])], drops="closed", origin="parameter spelling pair")
                R.count("parameter_programs")

    elif kind == "noops":
        # GENERAL tokens that are not elements do nothing: line breaks, code-page characters without
        # an element, digraph heads with nothing to pair with, unassigned digraphs. A body made only
        # of them is not empty for the parser, so each goes alone into every position.
        from vyxal import encoding

        syntax = set(F.OPENERS + F.CLOSERS + "| Xx") | set(F.MODIFIERS)
        known = set(table.all_keys)
        singles = [ch for ch in encoding.codepage
                   if ch not in known and ch not in syntax and F.model_tokenise(ch) == [(F.GENERAL, ch)]]
        digraphs = [h + ch for h in F.DIGRAPH_HEADS for ch in encoding.codepage
                    if ch != "|" and h + ch not in known]
        ctxs = _contexts(F, [])
        few = [c for c in ctxs if c[0] in ("top", "if-true", "if-else", "elif-cond", "elif-body", "for-body",
                                           "while-cond", "while-body", "lambda", "list-item", "function-body",
                                           "mod-v", "mod-₌-B")]
        todo = [(g, ctxs) for g in singles] + [(g, few) for g in digraphs]
        for g, cs in todo[unit["part"]::unit["of"]]:
            R.count("noop_tokens")
            for name, fn in cs:
                R.check_ast(fn(F.Elem(g)), drops="all", origin=f"no-op token in {name}")
                R.check_ast(fn(F.Elem(g)) + [F.Elem(g)], drops="closed", origin=f"no-op token in {name}, then last")
                R.count("noop_programs")
        if unit["part"] == 0:
            R.c["noop_singles"] = len(singles)
            R.c["noop_digraphs"] = len(digraphs)

    elif kind == "positions":
        thorough = unit.get("tier") == "thorough"
        keys = sorted(table.keys)
        # multi-line templates, found by running the transpiler
        multiline = []
        for k in keys:
            try:
                if len((MON["orig"](k) or "").strip("\n").split("\n")) > 1:
                    multiline.append(k)
            except Exception:  # noqa
                pass
        ctxs = _contexts(F, multiline)
        mine = keys[unit["part"]::unit["of"]]
        R.count("element_keys_in_positions", len(mine))
        R.count("positions", 0)
        for key in mine:
            for name, fn in ctxs:
                R.check_ast(fn(F.Elem(key)), drops="all", origin=f"position {name}")
                R.count("position_programs")
            if thorough:
                # every ordered pair (key, other) inside an indented block
                for other in keys:
                    R.check_ast([F.For(None, [F.Elem(key), F.Elem(other)])], drops="closed",
                                origin="pair in for")
                    R.count("pair_programs")
        if unit["part"] == 0:
            R.c["positions"] = len(ctxs)
            R.c["multiline_templates_found"] = len(multiline)
            R.c["keys_excluded_not_one_token"] = len(table.excluded)

    elif kind == "modifiers":
        ctxs = _contexts(F, [])
        forms = [
            ("elem", lambda: F.Elem("+")), ("elem-monad", lambda: F.Elem("N")), ("elem-nilad", lambda: F.Elem("¤")),
            ("num", lambda: F.Lit("num", "1")), ("str", lambda: F.Lit("str", "a")), ("char", lambda: F.Lit("char", "a")),
            ("cnum", lambda: F.Lit("cnum", "ab")), ("cstr", lambda: F.Lit("cstr", "ab")),
            ("cpnum", lambda: F.Lit("cpnum", "a")), ("str2", lambda: F.Lit("str2", "ab")),
            ("get", lambda: F.Var(False, "a")), ("set", lambda: F.Var(True, "a")),
            ("ghost-get", lambda: F.Var(False, "")), ("ghost-set", lambda: F.Var(True, "")),
            ("lambda", lambda: F.Lam(None, [F.Elem("+")])), ("lambda2", lambda: F.Lam(2, [F.Elem("+")])),
            ("map", lambda: F.LamOp("ƛ", [F.Elem("+")])), ("if", lambda: F.If([[F.Elem("+")], []])),
            ("for", lambda: F.For(None, [F.Elem("+")])), ("while", lambda: F.While(None, [F.Elem("+")])),
            ("list", lambda: F.ListLit([[F.Elem("+")], []])), ("call", lambda: F.FnCall("f")),
            ("def", lambda: F.FnDef("f", ["1"], [F.Elem("+")])), ("break", lambda: F.Brk()),
            ("recurse", lambda: F.Rec()), ("mod", lambda: F.Mod("v", [F.Elem("+")], None)),
            ("mod2", lambda: F.Mod("₌", [F.Elem("+"), F.Elem("N")], None)),
            ("multiline", lambda: F.Elem("†")), ("newline-comment", lambda: F.Comment("c")),
        ]
        for m in unit.get("mod") or F.MODIFIERS:
            ar = F.MOD_ARITY[m]
            for fname, mk in forms:
                if fname == "newline-comment":
                    # a comment between modifier and operand
                    node = F.Mod(m, [F.Elem("+") for _ in range(ar)], [[mk()]] + [[] for _ in range(ar - 1)])
                    variants = [node]
                else:
                    variants = []
                    for slot in range(ar):
                        ops = [F.Elem("+") for _ in range(ar)]
                        ops[slot] = mk()
                        variants.append(F.Mod(m, ops, None))
                    variants.append(F.Mod(m, [mk() for _ in range(ar)], None))
                for node in variants:
                    for name, fn in ctxs:
                        R.check_ast(fn(node), drops="all", origin=f"modifier {m} operand {fname} in {name}")
                        R.count("modifier_programs")

    elif kind == "brkrec":
        thorough = unit.get("tier") == "thorough"
        parents = _parents(F)
        mods = _mod_wrappers(F)
        progs = []
        leafs = [("X", F.Brk), ("x", F.Rec)]

        def placements(mk):
            return [("alone", lambda: [mk()]), ("after", lambda: [F.Elem("+"), mk()]),
                    ("before", lambda: [mk(), F.Elem("+")])]

        for lname, mk in leafs:
            for plname, pl in placements(mk):
                progs.append((f"{lname} {plname} top", lambda pl=pl: pl()))
                for p1n, p1 in parents:
                    progs.append((f"{lname} {plname} in {p1n}", lambda p1=p1, pl=pl: [p1(pl())]))
                    for p2n, p2 in parents:
                        progs.append((f"{lname} {plname} in {p2n} in {p1n}",
                                      lambda p1=p1, p2=p2, pl=pl: [p1([p2(pl())])]))
                        if thorough and plname == "alone":
                            for p3n, p3 in parents:
                                progs.append((f"{lname} in {p3n} in {p2n} in {p1n}",
                                              lambda p1=p1, p2=p2, p3=p3, pl=pl: [p1([p2([p3(pl())])])]))
            # as modifier operands, bare and inside parents, and parents inside modifier operands
            for mn, mw in mods:
                progs.append((f"{lname} operand of {mn}", lambda mw=mw, mk=mk: [mw(mk())]))
                for p1n, p1 in parents:
                    progs.append((f"{lname} operand of {mn} in {p1n}", lambda mw=mw, mk=mk, p1=p1: [p1([mw(mk())])]))
                    progs.append((f"{lname} in {p1n} operand of {mn}", lambda mw=mw, mk=mk, p1=p1: [mw(p1([mk()]))]))
                    progs.append((f"{lname} after {mn} in {p1n}",
                                  lambda mw=mw, mk=mk, p1=p1: [p1([mw(F.Elem("+")), mk()])]))
        for i, (name, build) in enumerate(progs):
            if i % unit["of"] != unit["part"]:
                continue
            R.check_ast(build(), drops="all", origin=name)
            R.count("brkrec_programs")

    elif kind == "enum":
        leaves = [lambda: F.Elem("†"), lambda: F.Brk(), lambda: F.Rec()]
        part, of = unit["part"], unit["of"]
        for ast in F.enum_asts(ENUM_BUDGET, leaves, select=lambda i: i % of == part):
            R.check_ast(ast, drops="all", origin="enum")
            R.count("enum_programs")

    elif kind == "random":
        rnd = random.Random(unit["seed"])
        g = F.Gen(table, unit.get("payload", "benign"))
        for i in range(unit["n"]):
            spine = 0.6 if i % 3 == 0 else 0.0
            ast = g.gen_program(rnd, depth=4, size=rnd.choice([10, 20, 30, 45]), spine_p=spine)
            s = F.serialise_full(ast)
            ks = {0, s.droppable}
            if s.droppable > 1:
                ks.add(rnd.randint(1, s.droppable - 1))
            dcs = (True, False) if i % 10 == 0 else (True,)
            R.check_ast(ast, drops=sorted(ks), dcs=dcs, origin=f"random {unit.get('payload', 'benign')}")
            R.count("random_programs" if unit.get("payload", "benign") == "benign" else "hostile_payload_programs")
            R.count("depth_%d" % F.depth_of(ast))
    else:
        raise ValueError(kind)
    for w in R.res["violations"]:
        if w.get("also"):
            w["what"] += f" [+{w['also']} more of the same mechanism in this unit]"
    return R.res


def finalize(agg, tier):
    out = {
        "exhaustive": False,
        "exhaustive_parts": ["(i) keys x positions", "(ii) break/recurse x parents"] + (
            ["(iii) <=5 symbols over the 14-symbol alphabet with all truncations"] if tier == "thorough" else []),
    }
    mech = {}
    for w in agg["violations"]:
        k = w.get("mechanism", "?")
        if w.get("subject") and ":" not in k:
            k += f" [{w['subject']}]"
        mech[k] = mech.get(k, 0) + 1 + int(w.get("also", 0))
    out["violating_programs_by_mechanism"] = dict(sorted(mech.items()))
    return out
