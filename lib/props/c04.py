"""C04 — omitting trailing closers never changes the parse.

For a well-formed program (G-full AST, serialised closed) and every k from 1
to the number of droppable trailing characters (structure closers `] ) } ; ⟩`
and, innermost, at most one closing string delimiter `` ` `` `«` `»`):

    repr(parse(tokenise(closed))) == repr(parse(tokenise(closed[:-k])))

Both sides are executions of the repo's lexer and parser. That the dropped
suffix consists of closers only is known from the AST (the serialiser marks
closer pieces) and is re-proved with the generator's own lexer: the intended
token list of the truncation is the closed list minus k closer tokens.
"""
from __future__ import annotations

import random

ID = "C04"
LEVEL = "exploration"
DESIGN_REF = "DESIGN.md §1 C04"
RULE = (
    "G-full programs (AST first, depth <= 4) whose right spine is a cascade of open structures (last item of "
    "a body is a structure / modifier operand / delimited string with probability 0.7), plus deterministic "
    "cascades: every nesting of up to two (thorough: three) of 39 structure/modifier forms (four repeat the open last branch verbatim as an earlier branch, four put a string literal spelling its source there) ending in each of "
    "16 kinds of last item, plus (thorough) all ASTs of <= 5 symbols over [ ( { λ ƛ ⟨ @f | closer v ₌ + `a` X. "
    "An evaluation is one comparison closed vs. truncated tree; every k from 1 to the full cascade is "
    "compared. distinct_nontrivial counts distinct truncated texts (k >= 1) that were compared."
)
ASSUMPTIONS = [
    "well-formed = derivable by lib/gen/full.py; droppable = the maximal suffix of structure closers plus, "
    "directly before it, the closing delimiter of a back-quoted / « / » literal; the payload of ‛ab, \\c, ⁺c "
    "and names are never truncated",
    "literal payloads are benign (no literal whose whole value is X x | or a modifier: property C03's defect "
    "class would otherwise be reported here as well)",
]
MIN_COUNTERS = {
    "comparisons": {"quick": 20000, "thorough": 200000},
    "programs_with_cascade_ge_3": {"quick": 1000, "thorough": 10000},
    "ending_in_string": {"quick": 500, "thorough": 5000},
    "ending_in_lam": {"quick": 200, "thorough": 2000},
    "ending_in_list": {"quick": 200, "thorough": 2000},
    "ending_in_fndef": {"quick": 200, "thorough": 2000},
    "ending_in_mod_operand": {"quick": 200, "thorough": 2000},
}
UNIT_TIMEOUT = 900

RANDOM_PER_UNIT = {"quick": 250, "thorough": 1000}
RANDOM_TOTAL = {"quick": 40000, "thorough": 150000}
N_CASCADE_UNITS = {"quick": 8, "thorough": 48}
N_ENUM_UNITS = 48
ENUM_BUDGET = 5


def units(tier, seed):
    u = []
    per = RANDOM_PER_UNIT[tier]
    for i in range(RANDOM_TOTAL[tier] // per):
        u.append({"kind": "random", "seed": seed * 1000003 + i, "n": per})
    for p in range(N_CASCADE_UNITS[tier]):
        u.append({"kind": "cascade", "part": p, "of": N_CASCADE_UNITS[tier], "levels": 3 if tier == "thorough" else 2})
    if tier == "thorough":
        for p in range(N_ENUM_UNITS):
            u.append({"kind": "enum", "part": p, "of": N_ENUM_UNITS})
    return u


def setup_worker():
    pass


def tree(text):
    from vyxal import lexer, parse

    return repr(parse.parse(lexer.tokenise(text)))


def try_tree(text):
    try:
        return ("ok", tree(text))
    except RecursionError:
        raise
    except Exception as e:  # noqa
        return ("raise", f"{type(e).__name__}: {e}"[:200])


def differing(F, ast):
    """[(k, closed_result, truncated_result)] for the truncations whose tree differs."""
    s = F.serialise_full(ast)
    if not s.droppable or not F.self_check(s.text, s.tokens):
        return []
    c = try_tree(s.text)
    if c[0] != "ok":
        return []
    out = []
    for k in range(1, s.droppable + 1):
        t = try_tree(s.text[: len(s.text) - k])
        if t != c:
            out.append((k, c, t))
    return out


def _spine(F, ast):
    """kinds along the right spine, outermost first"""
    out = []
    body = ast
    while True:
        real = [n for n in body]
        if not real:
            break
        n = real[-1]
        if isinstance(n, F.Mod):
            out.append("mod_operand")
            body = [n.operands[-1]]
            continue
        if isinstance(n, F.STRUCT_TYPES):
            out.append(n.t)
            bodies = F.child_bodies(n)
            if not bodies:
                break
            body = bodies[-1][1]
            continue
        if isinstance(n, F.Lit) and n.kind in ("str", "cnum", "cstr"):
            out.append("string")
        break
    return out


def _forms(F):
    """[(name, fn(body) -> node)]: structure / modifier forms for the deterministic cascades."""
    one = lambda: F.Lit("num", "1")  # noqa
    plus = lambda: F.Elem("+")  # noqa

    def last_of(body):
        # a modifier needs a single operand node: wrap a body that is not exactly one real node
        real = [n for n in body if not F.is_filler(n)]
        if len(body) == 1 and len(real) == 1:
            return real[0]
        return F.Lam(None, body)

    def spelled(body, opened):
        ser = F.serialise_full(body)
        t = ser.text[: len(ser.text) - ser.droppable] if opened else ser.text
        # a back-quoted literal cannot hold a back-quote or a backslash unescaped; such bodies get a plain word
        return t if t and "`" not in t and "\\" not in t else "ab"

    return [
        ("if", lambda b: F.If([b])),
        ("if-else", lambda b: F.If([[one()], b])),
        ("if-3", lambda b: F.If([[one()], [plus()], b])),
        ("if-4", lambda b: F.If([[one()], [plus()], [], b])),
        ("for", lambda b: F.For(None, b)),
        ("for-named", lambda b: F.For("ab", b)),
        ("while", lambda b: F.While(None, b)),
        ("while-cond", lambda b: F.While([one()], b)),
        ("lambda", lambda b: F.Lam(None, b)),
        ("lambda-arity", lambda b: F.Lam(2, b)),
        ("map", lambda b: F.LamOp("ƛ", b)),
        ("filter", lambda b: F.LamOp("'", b)),
        ("sort", lambda b: F.LamOp("µ", b)),
        ("list-1", lambda b: F.ListLit([b])),
        ("list-3", lambda b: F.ListLit([[one()], [], b])),
        ("function", lambda b: F.FnDef("f", [], b)),
        ("function-params", lambda b: F.FnDef("go", ["2", "a", "*"], b)),
        ("v", lambda b: F.Mod("v", [last_of(b)], None)),
        ("⁽", lambda b: F.Mod("⁽", [last_of(b)], None)),
        ("&", lambda b: F.Mod("&", [last_of(b)], None)),
        ("~", lambda b: F.Mod("~", [last_of(b)], None)),
        ("ß", lambda b: F.Mod("ß", [last_of(b)], None)),
        ("ƒ", lambda b: F.Mod("ƒ", [last_of(b)], None)),
        ("ɖ", lambda b: F.Mod("ɖ", [last_of(b)], None)),
        ("₌", lambda b: F.Mod("₌", [plus(), last_of(b)], None)),
        ("‡", lambda b: F.Mod("‡", [plus(), last_of(b)], None)),
        ("₍", lambda b: F.Mod("₍", [plus(), last_of(b)], None)),
        ("≬", lambda b: F.Mod("≬", [plus(), one(), last_of(b)], None)),
        ("after-stuff", lambda b: F.For(None, [plus(), F.If([[one()]])] + b)),
        ("after-comment", lambda b: F.Lam(None, [F.Comment("c;")] + b)),
        ("list-nested-pipe", lambda b: F.ListLit([[F.If([[one()], [plus()]])], b])),
        # an earlier branch spelled exactly like the (open) last one
        ("while-same-cond", lambda b: F.While(F._clone(b), b)),
        ("if-same-branches", lambda b: F.If([F._clone(b), b])),
        ("if-3-same-branches", lambda b: F.If([F._clone(b), F._clone(b), b])),
        ("list-same-items", lambda b: F.ListLit([F._clone(b), b])),
        # an earlier branch that is a string literal spelling the source of the last one, closed / open
        ("if-string-spelling-branch", lambda b: F.If([[F.Lit("str", spelled(b, False))], b])),
        ("if-string-spelling-open-branch", lambda b: F.If([[F.Lit("str", spelled(b, True))], b])),
        ("list-string-spelling-branch", lambda b: F.ListLit([[F.Lit("str", spelled(b, False))], b])),
        ("list-string-spelling-open-branch", lambda b: F.ListLit([[F.Lit("str", spelled(b, True))], b])),
    ]


def _last_items(F):
    return [
        ("empty", lambda: []),
        ("elem", lambda: [F.Elem("+")]),
        ("digraph", lambda: [F.Elem("kA")]),
        ("num", lambda: [F.Lit("num", "12")]),
        ("str", lambda: [F.Lit("str", "ab")]),
        ("str-empty", lambda: [F.Lit("str", "")]),
        ("str-escape", lambda: [F.Lit("str", "a\\`")]),
        ("str-closers", lambda: [F.Lit("str", ";]")]),
        ("cnum", lambda: [F.Lit("cnum", "ab")]),
        ("cstr", lambda: [F.Lit("cstr", "ab")]),
        ("str2", lambda: [F.Lit("str2", "a;")]),
        ("char", lambda: [F.Lit("char", ";")]),
        ("cpnum", lambda: [F.Lit("cpnum", "]")]),
        ("var", lambda: [F.Var(False, "ab")]),
        ("set", lambda: [F.Var(True, "")]),
        ("break", lambda: [F.Brk()]),
        ("call", lambda: [F.FnCall("f")]),
        ("two", lambda: [F.Elem("+"), F.Lit("str", "a")]),
    ]


class Run:
    def __init__(self, F):
        from lib.harness import short_hash

        self.F = F
        self.hash = short_hash
        self.res = {"evals": 0, "keys": [], "violations": [], "inconclusive": [], "skips": {}, "counters": {},
                    "samples": []}
        self.c = self.res["counters"]
        self.sigs = {}
        self.seen = set()
        self.shrinks = 0

    def count(self, name, n=1):
        self.c[name] = self.c.get(name, 0) + n

    def skip(self, why):
        self.res["skips"][why] = self.res["skips"].get(why, 0) + 1

    def check_ast(self, ast, origin):
        F = self.F
        s = F.serialise_full(ast)
        if not F.self_check(s.text, s.tokens):
            self.count("generator_selfcheck_discarded")
            return
        self.count("programs")
        if s.droppable == 0:
            self.skip("no trailing closers")
            return
        try:
            closed = try_tree(s.text)
        except RecursionError:
            self.res["inconclusive"].append({"why": "RecursionError", "program": s.text})
            return
        if closed[0] != "ok":
            # a well-formed closed program that the parser rejects: C02's business; nothing to compare here
            self.res["inconclusive"].append({"why": "closed program does not parse: " + closed[1], "program": s.text})
            return
        if F.repo_tokens(s.text) != s.tokens:
            self.count("repo_lexer_differs_from_intended")
        sp = _spine(F, ast)
        if s.droppable >= 3:
            self.count("programs_with_cascade_ge_3")
        self.count("cascade_%s" % (s.droppable if s.droppable < 6 else "6+"))
        if s.str_delim:
            self.count("ending_in_string")
        structs = [k for k in sp if k != "string"]
        if structs:
            self.count("ending_in_" + structs[-1])
        first_bad = None
        for k in range(1, s.droppable + 1):
            text = s.text[: len(s.text) - k]
            toks = F._tokens_after_drop(s, k)
            if not F.self_check(text, toks):
                self.count("generator_selfcheck_discarded")
                continue
            try:
                t = try_tree(text)
            except RecursionError:
                self.res["inconclusive"].append({"why": "RecursionError", "program": text})
                continue
            self.res["evals"] += 1
            self.count("comparisons")
            h = self.hash(text)
            if h not in self.seen:
                self.seen.add(h)
                self.res["keys"].append(h)
            if t != closed and first_bad is None:
                first_bad = (k, t)
        if first_bad is not None:
            self.violation(ast, s, first_bad, closed, origin)
        if len(self.res["samples"]) < 1 and s.droppable >= 2:
            self.res["samples"].append({"closed": s.text, "droppable": s.text[len(s.text) - s.droppable:],
                                        "spine": sp, "origin": origin})

    def violation(self, ast, s, first_bad, closed, origin):
        F = self.F
        self.count("violating_programs")
        m = ast
        if self.shrinks < 60:
            self.shrinks += 1
            m = F.shrink(ast, lambda a: bool(differing(F, a)), max_trials=300)
        d = differing(F, m)
        if not d:
            m, d = ast, differing(F, ast)
        k, c, t = d[0]
        ms = F.serialise_full(m)
        dropped = ms.text[len(ms.text) - k:]
        kind = "truncated-parse-raises" if t[0] == "raise" else "truncation-changes-parse"
        mech = f"{kind} when dropping {''.join(sorted(set(dropped)))}"
        sig = (mech, F.skeleton(m))
        if sig in self.sigs:
            self.sigs[sig]["also"] += 1
            return
        if len(self.sigs) >= 20:
            self.count("violations_beyond_witness_cap")
            return
        w = {
            "mechanism": mech,
            "what": f"closed {ms.text!r} parses to {c[1][:300]}; without its last {k} closer(s) "
                    f"{ms.text[:len(ms.text) - k]!r} parses to {t[1][:300]}",
            "unit": {"kind": "ast", "ast": F.to_json(m)},
            "closed": ms.text,
            "truncated": ms.text[: len(ms.text) - k],
            "dropped": dropped,
            "found_in": s.text,
            "origin": origin,
            "also": 0,
        }
        self.sigs[sig] = w
        self.res["violations"].append(w)


def run_unit(unit):
    from lib.gen import full as F

    R = Run(F)
    kind = unit["kind"]
    if kind == "ast":
        R.check_ast(F.from_json(unit["ast"]), "replay")
    elif kind == "random":
        table = F.Table.from_repo()
        g = F.Gen(table, "benign")
        rnd = random.Random(unit["seed"])
        for i in range(unit["n"]):
            ast = g.gen_program(rnd, depth=4, size=rnd.choice([10, 20, 30, 45]), spine_p=0.7)
            R.check_ast(ast, "random")
    elif kind == "cascade":
        forms = _forms(F)
        lasts = _last_items(F)
        levels = unit.get("levels", 2)
        i = 0

        def chains(n):
            if n == 0:
                yield ()
                return
            for c in chains(n - 1):
                for f in forms:
                    yield c + (f,)

        for depth in range(1, levels + 1):
            for chain in chains(depth):
                for lname, mk in lasts:
                    i += 1
                    if i % unit["of"] != unit["part"]:
                        continue
                    body = mk()
                    for fname, f in reversed(chain):
                        body = [f(body)]
                    R.check_ast(body, "cascade " + ">".join(n for n, _ in chain) + ">" + lname)
                    R.count("cascade_programs")
    elif kind == "enum":
        leaves = [lambda: F.Elem("+"), lambda: F.Lit("str", "a"), lambda: F.Brk()]
        part, of = unit["part"], unit["of"]
        for ast in F.enum_asts(ENUM_BUDGET, leaves, select=lambda i: i % of == part):
            R.check_ast(ast, "enum")
            R.count("enum_programs")
    else:
        raise ValueError(kind)
    for w in R.res["violations"]:
        if w.get("also"):
            w["what"] += f" [+{w['also']} more with the same minimal shape in this unit]"
    return R.res


def classify(w):
    return None


def finalize(agg, tier):
    return {
        "exhaustive": False,
        "exhaustive_parts": ["cascades of <= %d forms x 18 last items" % (3 if tier == "thorough" else 2)] + (
            ["ASTs of <= 5 symbols, every truncation"] if tier == "thorough" else []),
    }
