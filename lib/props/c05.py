"""C05 — numeric literals denote exactly their decimal value.

Deciding oracle (public observables only): the text of one or more adjacent
literals (characters `0-9` and `.` only) is run as a whole Vyxal program
(tokenise -> parse -> transpile -> exec, `env.run_text`); the final stack must
have one entry per token of the *reference scanner* below, every entry must be
an `int` / sympy `Integer` / sympy `Rational`, and its value must equal the
`fractions.Fraction` the token spells.

Reference scanner (the documented splitting rule, DESIGN §1 C05): a `0` that
is not followed by `.` stands alone; otherwise a number extends over digits
and at most one `.`; a second `.` starts a new number; a bare `.` is 1/2.

`°` (complex literals) is outside the property and never generated.

Secondary (witness sharpening only): `lexer.tokenise` of the same text, to say
whether a wrong stack comes from the split or from the lowering.
"""
from __future__ import annotations

import decimal
import os
import random
from fractions import Fraction

ID = "C05"
LEVEL = "exploration"
DESIGN_REF = "DESIGN.md §1 C05"
RULE = (
    "each case is a program text over the alphabet 0-9 and '.', run alone on an empty stack and "
    "compared entry-by-entry with fractions.Fraction of the reference scanner's tokens. Workloads: "
    "every integer literal 0..N exhaustively (N = 2*10^4 quick, 10^6 thorough); seeded integers of "
    "7..60 digits (powers of ten and two +-1, repdigits, zero-heavy, uniform); seeded decimals with "
    "0..25 integer and 0..18 fractional digits (including the forms '.5' and '5.'); hostile decimals: "
    "13..18-fractional-digit truncations and roundings of p/q, sqrt(n), quadratic surds, e, pi, phi, "
    "logarithms, their halves and power-of-ten multiples, and short decimals perturbed in the 15th-18th "
    "place; every string of length <= 7 over {0,1,5,.} (quick: length <= 5 plus a sample of 6-7) and "
    "seeded strings of length <= 12 over 0-9 and '.' for the splitting rule. distinct_nontrivial counts "
    "distinct program texts other than '0' and '1' that were executed and observed (exhaustive integer "
    "ranges are disjoint by construction and counted directly; everything else by text hash; canonical "
    "integer strings inside the pattern spaces are executed but not counted again)."
)
ASSUMPTIONS = [
    "fractions.Fraction and Python int arithmetic are the exact reference",
    "a bare '.' denotes 1/2 and 'd.' denotes d (as the transpiler documents); both appear only as tokens of the splitting workload and of the '5.'/'.5' forms",
    "complex literals ('°') are outside the property and not generated",
]
MIN_COUNTERS = {
    "literals_in_context": {"quick": 1500, "thorough": 6000},
    "literal_runs": {"quick": 7000, "thorough": 200000},
    "ints_exhaustive": {"quick": 4000, "thorough": 200000},
    "decimal_literals": {"quick": 1200, "thorough": 12000},
    "hostile_literals": {"quick": 600, "thorough": 4000},
    "split_patterns": {"quick": 700, "thorough": 6000},
    "multi_token_programs": {"quick": 400, "thorough": 4000},
}
UNIT_TIMEOUT = 1200
MAX_WITNESSES_PER_UNIT = 20

DIGITS = "0123456789"
SPLIT_ALPHABET = "015."


# --------------------------------------------------------------------------
# reference scanner and reference value
# --------------------------------------------------------------------------
def ref_split(text):
    """Documented split of a run of digits and points into number tokens."""
    out = []
    i, n = 0, len(text)
    while i < n:
        ch = text[i]
        if ch == "0" and not (i + 1 < n and text[i + 1] == "."):
            out.append("0")
            i += 1
            continue
        j = i
        points = 0
        while j < n and (text[j] in DIGITS or (text[j] == "." and points == 0)):
            if text[j] == ".":
                points += 1
            j += 1
        out.append(text[i:j])
        i = j
    return out


def ref_value(tok):
    """The rational a token spells: digits/10^k, exactly. Bare '.' is 1/2."""
    if tok == ".":
        return Fraction(1, 2)
    ip, _, fp = tok.partition(".")
    v = Fraction(int(ip) if ip else 0)
    if fp:
        v += Fraction(int(fp), 10 ** len(fp))
    return v


def _selfcheck_ref():
    assert ref_split("0.5.5") == ["0.5", ".5"]
    assert ref_split("007") == ["0", "0", "7"]
    assert ref_split("00.5") == ["0", "0.5"]
    assert ref_split("1..5") == ["1.", ".5"]
    assert ref_split("..") == [".", "."]
    assert ref_split("100") == ["100"]
    assert ref_split("1.50.0") == ["1.50", ".0"]
    assert ref_split("10.") == ["10."]
    for t in ("12.5", "5.", ".5", "0.125", "123"):
        assert ref_value(t) == Fraction(t)


_selfcheck_ref()


# --------------------------------------------------------------------------
# workload generators (pure text; deterministic in the seed)
# --------------------------------------------------------------------------
def gen_bigints(r, n):
    out = []
    for _ in range(n):
        d = r.choice([7, 8, 9, 10, 15, 16, 17, 18, 19, 20, 21, 30, 31, 59, 60]) if r.random() < 0.5 else r.randint(7, 60)
        form = r.random()
        if form < 0.40:
            s = str(r.randint(10 ** (d - 1), 10 ** d - 1))
        elif form < 0.50:
            s = str(10 ** (d - 1) + r.choice([0, 1, -1, 2, 5]) if d > 7 else 10 ** (d - 1) + r.choice([0, 1, 2, 5]))
        elif form < 0.60:
            k = r.randint(20, 199)
            s = str(2 ** k + r.choice([0, 1, -1]))
        elif form < 0.70:
            s = r.choice("123456789") * d
        elif form < 0.85:
            s = r.choice("123456789") + "".join(r.choice("000000123456789") for _ in range(d - 1))
        else:
            # a short head followed by zeros and a short tail: 1234000...0007
            head = str(r.randint(1, 9999))
            tail = str(r.randint(0, 999))
            mid = max(0, d - len(head) - len(tail))
            s = head + "0" * mid + tail
        s = s.lstrip("0") or "7"
        if len(s) < 7:
            s = s + "0" * (7 - len(s))
        if len(s) > 60:
            s = s[:60]
        out.append(s)
    return out


def _digits(r, n, biased):
    if n == 0:
        return ""
    if biased:
        alpha = r.choice(["0009", "0369", "0000001", "9", "3", "0123456789", "05"])
        return "".join(r.choice(alpha) for _ in range(n))
    return "".join(r.choice(DIGITS) for _ in range(n))


def gen_decimals(r, n):
    out = []
    while len(out) < n:
        a = r.choice([0, 1, 1, 1, 2, 3, 5, 10, 15, 16, 17, 24, 25]) if r.random() < 0.6 else r.randint(0, 25)
        b = r.choice([0, 1, 2, 3, 4, 10, 14, 15, 16, 17, 18]) if r.random() < 0.6 else r.randint(0, 18)
        if a == 0 and b == 0:
            continue
        biased = r.random() < 0.3
        if a == 0:
            ip = ""
        elif a == 1:
            ip = r.choice(DIGITS)
        else:
            ip = r.choice("123456789") + _digits(r, a - 1, biased)
        fp = _digits(r, b, biased)
        out.append(ip + "." + fp)
    return out


_PI = "3.14159265358979323846264338327950288419716939937510582097494459230781640628620899"


def _nice_numbers():
    """(label, Decimal at 80 significant digits) — numbers a closed-form finder knows."""
    D = decimal.Decimal
    ctx = decimal.Context(prec=80)
    out = []
    from math import gcd, isqrt

    for q in range(2, 51):
        for p in range(1, 2 * q + 1):
            if gcd(p, q) == 1:
                out.append((f"{p}/{q}", ctx.divide(D(p), D(q))))
    for q in (64, 81, 97, 99, 101, 113, 125, 127, 128, 250, 256, 333, 365, 500, 512, 625, 720, 729, 997, 999, 1000):
        for p in (1, 2, 7, q - 1, q + 1, 2 * q + 1):
            if gcd(p, q) == 1:
                out.append((f"{p}/{q}", ctx.divide(D(p), D(q))))
    for n in range(2, 51):
        if isqrt(n) ** 2 != n:
            s = ctx.sqrt(D(n))
            out.append((f"sqrt({n})", s))
            out.append((f"sqrt({n})/2", ctx.divide(s, D(2))))
            out.append((f"1/sqrt({n})", ctx.divide(D(1), s)))
    for a, n, c in ((1, 5, 2), (1, 2, 1), (1, 3, 2), (3, 5, 2), (2, 3, 1), (1, 5, 4), (-1, 5, 2), (1, 13, 2), (5, 17, 4), (1, 2, 2), (-1, 3, 2), (7, 7, 3)):
        out.append((f"({a}+sqrt({n}))/{c}", ctx.divide(ctx.add(D(a), ctx.sqrt(D(n))), D(c))))
    for p, q in ((1, 2), (2, 3), (3, 2), (5, 7), (7, 5), (1, 10), (22, 7)):
        out.append((f"sqrt({p}/{q})", ctx.sqrt(ctx.divide(D(p), D(q)))))
    e = ctx.exp(D(1))
    pi = D(_PI)
    named = {
        "e": e, "e/2": ctx.divide(e, D(2)), "e^2": ctx.exp(D(2)), "sqrt(e)": ctx.exp(D("0.5")),
        "1/e": ctx.exp(D(-1)), "e^(1/3)": ctx.exp(ctx.divide(D(1), D(3))), "e^3": ctx.exp(D(3)),
        "pi": pi, "pi/2": ctx.divide(pi, D(2)), "pi/4": ctx.divide(pi, D(4)), "2pi": ctx.multiply(pi, D(2)),
        "pi^2/6": ctx.divide(ctx.multiply(pi, pi), D(6)), "1/pi": ctx.divide(D(1), pi),
        "ln2": ctx.ln(D(2)), "ln3": ctx.ln(D(3)), "ln10": ctx.ln(D(10)), "ln2/2": ctx.divide(ctx.ln(D(2)), D(2)),
        "ln(3/2)": ctx.ln(D("1.5")), "log10(2)": ctx.log10(D(2)), "log10(e)": ctx.log10(e),
        "2^(1/3)": ctx.power(D(2), ctx.divide(D(1), D(3))), "3^(1/3)": ctx.power(D(3), ctx.divide(D(1), D(3))),
        "2^(1/4)": ctx.sqrt(ctx.sqrt(D(2))), "e*pi": ctx.multiply(e, pi),
    }
    out.extend(named.items())
    return out


def _expand(x, frac_digits, rounding):
    """Decimal x cut to `frac_digits` places, as a plain digit string."""
    q = decimal.Decimal(1).scaleb(-frac_digits)
    y = x.quantize(q, rounding=rounding, context=decimal.Context(prec=120))
    s = format(y, "f")
    assert "." in s and "e" not in s.lower() and not s.startswith("-"), s
    return s


def gen_hostile(tier, seed):
    """List of (label, literal). The fixed core (design-time sightings) comes
    first; the remainder is the full cross product, subsampled in quick."""
    core = [
        ("seen 1/3", "0.3333333333333333"), ("seen sqrt2", "1.4142135623730951"),
        ("seen e", "2.718281828459045"), ("seen phi", "1.618033988749895"),
        ("ulp 1/2", "0.5000000000000001"), ("ulp 0.3", "0.30000000000000004"),
        ("ulp 1", "1.0000000000000002"), ("ulp 3", "2.9999999999999996"),
        ("seen 2/3", "0.6666666666666666"), ("seen 2/3 r", "0.6666666666666667"),
        ("pi", "3.141592653589793"), ("1/7", "0.14285714285714285"),
        ("sqrt3/2", "0.8660254037844386"), ("ln2", "0.6931471805599453"),
        ("1/3 15", "0.333333333333333"), ("1/3 18", "0.333333333333333333"),
        ("sqrt2 18", "1.414213562373095048"), ("33.3", "33.33333333333333"),
        ("coarse 7", "6.9999999"), ("coarse 5/2", "2.50000001"), ("coarse 12", "12.0000001"),
        ("coarse 4", "3.9999999999"), ("short product", "6.143"),
        ("smooth product int", "242901"), ("smooth product decimal", "45523.9330"),
    ]
    r = random.Random(f"C05-hostile-{seed}")
    full = []
    for label, x in _nice_numbers():
        for scale in (0, 0, 1, 2, 3, 6):
            xs = x.scaleb(scale) if scale else x
            for fd in (13, 14, 15, 16, 17, 18):
                for rnd in (decimal.ROUND_DOWN, decimal.ROUND_HALF_EVEN):
                    full.append((f"{label}*10^{scale}", _expand(xs, fd, rnd)))
    # short decimals perturbed far out: d.ddd000...0k and d.ddd999...9k
    for _ in range(6000):
        ip = str(r.choice([0, 0, 1, 2, 3, 7, 12, 99, 100, 255, 999, r.randint(0, 99999)]))
        nf = r.randint(0, 3)
        fp = "".join(r.choice(DIGITS) for _ in range(nf))
        total = r.randint(14, 18)
        pad = total - nf - 1
        if r.random() < 0.5:
            lit = ip + "." + fp + "0" * pad + r.choice("123456789")
            full.append(("perturb+", lit))
        else:
            lit = ip + "." + fp + "9" * pad + r.choice("123456789")
            full.append(("perturb-", lit))
    seen = set()
    dedup = []
    for label, lit in core + full:
        if lit in seen:
            continue
        seen.add(lit)
        dedup.append((label, lit))
    ncore = len(core)
    rest = dedup[ncore:]
    r.shuffle(rest)
    limit = 3600 if tier == "quick" else 36000
    return dedup[:ncore] + rest[:limit]


def split_pattern(length, index):
    s = []
    for _ in range(length):
        s.append(SPLIT_ALPHABET[index % 4])
        index //= 4
    return "".join(reversed(s))


def gen_random_patterns(r, n):
    out = []
    alpha = "0000..." + DIGITS
    for _ in range(n):
        k = r.randint(2, 12)
        out.append("".join(r.choice(alpha) for _ in range(k)))
    return out


def is_canonical_int(text):
    return text.isdigit() and (text == "0" or text[0] != "0")


# --------------------------------------------------------------------------
# units
# --------------------------------------------------------------------------
def units(tier, seed):
    quick = tier != "thorough"
    u = []
    try:
        int_max = int(os.environ.get("VERIF_C05_INT_MAX", ""))
    except ValueError:
        int_max = 20000 if quick else 10 ** 6
    step = 500 if quick else 1000
    for lo in range(0, int_max + 1, step):
        u.append({"kind": "ints", "lo": lo, "hi": min(lo + step, int_max + 1)})
    # exhaustive split patterns
    full_len = 5 if quick else 7
    for L in range(1, full_len + 1):
        total = 4 ** L
        chunk = 256
        for lo in range(0, total, chunk):
            u.append({"kind": "split", "len": L, "lo": lo, "hi": min(total, lo + chunk)})
    if quick:
        r = random.Random(f"C05-splitsample-{seed}")
        for L, n in ((6, 600), (7, 900)):
            idx = sorted(r.sample(range(4 ** L), n))
            for k in range(0, n, 150):
                u.append({"kind": "split", "len": L, "idx": idx[k:k + 150]})
    n_rp, n_big, n_dec = (1000, 3000, 6000) if quick else (10000, 60000, 60000)
    for k in range(0, n_rp, 250):
        u.append({"kind": "randsplit", "seed": seed, "i": k // 250, "n": 250})
    for k in range(0, n_big, 500):
        u.append({"kind": "bigints", "seed": seed, "i": k // 500, "n": 500})
    for k in range(0, n_dec, 150):
        u.append({"kind": "decimals", "seed": seed, "i": k // 150, "n": 150})
    hostile = gen_hostile(tier, seed)
    for k in range(0, len(hostile), 150):
        part = hostile[k:k + 150]
        u.append({"kind": "hostile", "texts": [t for _, t in part], "labels": [l for l, _ in part]})
    # the same literals written inside structures (a literal denotes its value wherever it stands)
    ctx_lits = [t for _, t in hostile if "." in t][:: 3 if quick else 1]
    for k in range(0, len(ctx_lits), 60):
        u.append({"kind": "contexts", "texts": ctx_lits[k:k + 60]})
    # longest units first would starve nothing here; interleave kinds so that a
    # partial run still saw every workload
    r = random.Random(f"C05-order-{seed}")
    r.shuffle(u)
    return u


def setup_worker():
    pass


# --------------------------------------------------------------------------
# the oracle
# --------------------------------------------------------------------------
def _approx(v):
    """float value of whatever was pushed, or None."""
    try:
        import sympy

        if isinstance(v, (int, float)):
            return float(v)
        if isinstance(v, sympy.Basic):
            c = complex(sympy.N(v, 30))
            if abs(c.imag) > 0:
                return None
            return c.real
    except Exception:  # noqa
        return None
    return None


def _describe(v):
    s = repr(v)
    if len(s) > 120:
        s = s[:117] + "..."
    return f"{type(v).__name__}:{s}"


def check_text(text, res, label=None):
    """Run one program text made of literals only; append violations."""
    from lib import env
    from lib.values import is_exact_number, to_fraction, canon
    from lib.worker import watchdog, Watchdog

    c = res["counters"]
    toks = ref_split(text)
    exp = [ref_value(t) for t in toks]
    try:
        with watchdog(60):
            r = env.run_text(text)
    except Watchdog:
        res["inconclusive"].append({"why": "watchdog 60s on a literal", "text": text})
        return
    except (MemoryError, RecursionError) as e:
        res["inconclusive"].append({"why": f"{type(e).__name__} on a literal", "text": text})
        return
    res["evals"] += 1
    c["literal_runs"] = c.get("literal_runs", 0) + 1
    c["literal_tokens_expected"] = c.get("literal_tokens_expected", 0) + len(toks)
    if len(toks) > 1:
        c["multi_token_programs"] = c.get("multi_token_programs", 0) + 1

    def witness(mech, what, **kw):
        c["violations_" + mech] = c.get("violations_" + mech, 0) + 1
        if len(res["violations"]) >= MAX_WITNESSES_PER_UNIT:
            c["witnesses_dropped"] = c.get("witnesses_dropped", 0) + 1
            return
        w = {
            "mechanism": mech,
            "what": what,
            "text": text,
            "expected_tokens": toks,
            "expected": [str(e) for e in exp],
            "unit": {"kind": "texts", "texts": [text]},
        }
        if label:
            w["label"] = label
        try:
            from vyxal import lexer

            w["lexer_tokens"] = [[t.name.value, t.value] for t in lexer.tokenise(text)]
        except Exception as e:  # noqa
            w["lexer_tokens"] = f"unavailable: {e!r}"
        w.update(kw)
        res["violations"].append(w)

    if r.error is not None:
        witness("literal-raises", f"literal program {text!r} raised {r.error[0]}: {r.error[1]!r}; expected stack {[str(e) for e in exp]}")
        return
    stack = list(r.stack)
    if len(res["samples"]) < 3:
        res["samples"].append({"text": text, "stack": canon(stack), "expected": [str(e) for e in exp]})
    if len(stack) != len(exp):
        lex = None
        try:
            from vyxal import lexer

            lex = [t.value for t in lexer.tokenise(text)]
        except Exception:  # noqa
            pass
        mech = "literal-missplit" if lex is not None and lex != toks else "literal-stack-length"
        witness(mech, f"{text!r} pushed {len(stack)} entries {[_describe(v) for v in stack][:8]}; documented split is {toks}", observed=[_describe(v) for v in stack][:12])
        return
    for tok, e, v in zip(toks, exp, stack):
        if is_exact_number(v):
            got = to_fraction(v)
            if got == e:
                continue
            rel = abs(got - e) / abs(e) if e != 0 else None
            simpler = (got.denominator < e.denominator and got.denominator <= 10 ** 6) or _smooth(got)
            mech = _value_mechanism(tok, float(rel) if rel is not None else None, rational=True, simpler=simpler)
            witness(mech, f"literal {tok!r} (in {text!r}) pushed {got} instead of {e} (relative error {float(rel) if rel is not None else 'n/a'})",
                    token=tok, observed=_describe(v), rel_err=float(rel) if rel is not None else None, result_kind="rational")
        else:
            a = _approx(v)
            rel = None
            if a is not None and e != 0:
                rel = abs(a - float(e)) / abs(float(e))
            import sympy

            closed_form = isinstance(v, sympy.Basic) and not isinstance(v, sympy.Float) and not v.free_symbols
            mech = _value_mechanism(tok, rel, rational=False, simpler=True) if closed_form else "literal-inexact-type"
            witness(mech, f"literal {tok!r} (in {text!r}) pushed {_describe(v)}, not the exact rational {e}",
                    token=tok, observed=_describe(v), rel_err=rel, result_kind="non-rational")


def _smooth(fr):
    """numerator and denominator are both products of powers of 2, 3, 5, 7 and
    the denominator is not 1 (the closed-form finder's 'product of prime
    powers' form with integer exponents; a float- or digit-loss is not of
    this shape)."""
    n, d = abs(fr.numerator), fr.denominator
    if d == 1 or n == 0:
        return False
    for p in (2, 3, 5, 7):
        while n % p == 0:
            n //= p
        while d % p == 0:
            d //= p
    return n == 1 and d == 1


def _value_mechanism(tok, rel, rational, simpler):
    """Mechanism tag from the observable signature of a wrong literal value
    (never from the value itself): kind of token, how far off, and whether the
    pushed value is a *simpler* number than the one spelled (an exact closed
    form, a rational with a smaller denominator <= 10^6, or a quotient of
    products of powers of 2, 3, 5, 7) — the signature of a closed-form finder,
    as opposed to a digit or precision loss."""
    if "." in tok:
        if simpler and rel is not None and rel <= 1e-13:
            return "literal-nsimplify-snaps-decimal"
        if simpler and rel is not None and rel <= 1e-6:
            return "literal-nsimplify-snaps-decimal-coarse"
        return "literal-decimal-wrong-value" if rational else "literal-inexact-type"
    if (not rational or simpler) and rel is not None and rel <= 1e-13:
        return "literal-nsimplify-int-becomes-algebraic"
    return "literal-int-wrong-value" if rational else "literal-inexact-type"


def _new_result():
    return {"evals": 0, "keys": [], "distinct": 0, "violations": [], "inconclusive": [], "skips": {},
            "counters": {}, "samples": []}


CONTEXTS = [
    ("list-item", "⟨{L}|2⟩", lambda st: st[-1][0]),
    ("list-item-last", "⟨1|{L}⟩", lambda st: st[-1][1]),
    ("nested-list", "⟨⟨{L}⟩|3⟩", lambda st: st[-1][0][0]),
    ("if-branch", "1[{L}|7]", lambda st: st[-1]),
    ("else-branch", "0[7|{L}]", lambda st: st[-1]),
    ("for-body", "2({L})", lambda st: st[-1]),
    ("lambda-body", "λ{L};†", lambda st: st[-1]),
    ("map-body", "2ƛ{L};", lambda st: list(st[-1])[1]),
    ("function-body", "@f|{L};@f;", lambda st: st[-1]),
    ("modifier-operand", "1 ₌{L}d", lambda st: st[-2]),
    ("after-literal", "5 {L}", lambda st: st[-1]),
    ("while-condition", "{{{L}|X}}{L}", lambda st: st[-1]),
]


def check_in_contexts(text, res):
    """The literal `text` written inside every structure kind must denote the same exact rational."""
    from lib import env
    from lib.harness import short_hash
    from lib.values import is_exact_number, to_fraction
    from lib.worker import watchdog, Watchdog

    c = res["counters"]
    toks = ref_split(text)
    if len(toks) != 1:
        return
    want = ref_value(toks[0])
    for name, tmpl, pick in CONTEXTS:
        prog = tmpl.replace("{L}", text).replace("{{", "{").replace("}}", "}")
        try:
            with watchdog(30):
                r = env.run_text(prog)
                got = None if r.error else pick(r.stack)
        except Watchdog:
            res["inconclusive"].append({"why": "watchdog", "text": prog})
            continue
        except Exception as e:  # noqa  (picker failed: shape of the result is not what the context promises)
            r = None
            got = e
        res["evals"] += 1
        c["literals_in_context"] = c.get("literals_in_context", 0) + 1
        res["keys"].append(short_hash([name, text]))
        bad = None
        if r is not None and r.error:
            bad = f"raised {type(r.error[1]).__name__}: {r.error[1]}"
        elif isinstance(got, Exception):
            bad = f"result has an unexpected shape ({type(got).__name__})"
        elif not is_exact_number(got):
            bad = f"pushed {_describe(got)}, not an exact rational"
        elif to_fraction(got) != want:
            bad = f"pushed {got} instead of {want}"
        if bad:
            c["violations_literal-in-context"] = c.get("violations_literal-in-context", 0) + 1
            if len(res["violations"]) < MAX_WITNESSES_PER_UNIT:
                res["violations"].append({
                    "mechanism": "literal-in-context:" + name,
                    "what": f"literal {text!r} written as {prog!r} ({name}): {bad}",
                    "text": text, "program": prog,
                    "unit": {"kind": "contexts", "texts": [text]},
                })


def run_unit(unit):
    from lib.harness import short_hash

    res = _new_result()
    c = res["counters"]
    k = unit["kind"]
    if k == "ints":
        for n in range(unit["lo"], unit["hi"]):
            before = res["evals"]
            check_text(str(n), res)
            if res["evals"] > before:
                c["ints_exhaustive"] = c.get("ints_exhaustive", 0) + 1
                if n > 1:
                    res["distinct"] += 1
        return res
    if k == "contexts":
        for text in unit["texts"]:
            check_in_contexts(text, res)
        return res
    labels = None
    if k == "texts":
        texts = unit["texts"]
        counter = "replayed_texts"
    elif k == "split":
        if "idx" in unit:
            texts = [split_pattern(unit["len"], i) for i in unit["idx"]]
        else:
            texts = [split_pattern(unit["len"], i) for i in range(unit["lo"], unit["hi"])]
        counter = "split_patterns"
    elif k == "randsplit":
        texts = gen_random_patterns(random.Random(f"C05-randsplit-{unit['seed']}-{unit['i']}"), unit["n"])
        counter = "split_patterns"
    elif k == "bigints":
        texts = gen_bigints(random.Random(f"C05-bigints-{unit['seed']}-{unit['i']}"), unit["n"])
        counter = "big_int_literals"
    elif k == "decimals":
        texts = gen_decimals(random.Random(f"C05-decimals-{unit['seed']}-{unit['i']}"), unit["n"])
        counter = "decimal_literals"
    elif k == "hostile":
        texts = unit["texts"]
        labels = unit.get("labels")
        counter = "hostile_literals"
    else:
        raise ValueError(f"unknown unit kind {k!r}")
    for i, text in enumerate(texts):
        if not text or any(ch not in DIGITS + "." for ch in text):
            res["skips"]["generator-produced-foreign-character"] = res["skips"].get("generator-produced-foreign-character", 0) + 1
            continue
        before = res["evals"]
        check_text(text, res, labels[i] if labels else None)
        if res["evals"] > before:
            c[counter] = c.get(counter, 0) + 1
            if not (is_canonical_int(text) and len(text) <= 7):
                res["keys"].append(short_hash(text))
    return res


def classify(w):
    m = w.get("mechanism")
    if m in ("literal-nsimplify-snaps-decimal", "literal-nsimplify-snaps-decimal-coarse",
             "literal-nsimplify-int-becomes-algebraic"):
        return "C05-" + m
    return None


def finalize(agg, tier):
    c = agg["counters"]
    return {
        "exhaustive": False,
        "exhaustive_parts": {
            "integer_literals_0_to": c.get("ints_exhaustive", 0) - 1,
            "split_patterns_over_015dot_up_to_length": 5 if tier != "thorough" else 7,
        },
    }
