"""C13 — a finite lazy list is indistinguishable from the list it enumerates.

Deciding oracle (public observables only): a plain-list model run in lock-step
with histories of observations on `LazyList(<iterator over src>)`. Every
observation must return what the same observation returns on `list(src)`
(indexing past the end wraps around, 0 on the empty list), and after every
history a full enumeration of the lazy list, of every copy taken and of every
lazily returned result must still give the modelled sequence ("observations
never change the sequence").

Secondary monitor (feature-detected, sharpens the witness and fires earlier):
ghost-truth invariant `generated is a prefix of src` after every return/yield
of a method of the LazyList class (lib/models/lazyghost.py, sys.monitoring —
icontract was measured to break `LazyList.reversed`, see that module).

Observations that are undefined on a plain list (negative index beyond -len,
`has_ind` of a negative number) are never generated.
"""
from __future__ import annotations

import itertools
import random

ID = "C13"
LEVEL = "exploration"
DESIGN_REF = "DESIGN.md §1 C13"
RULE = (
    "exhaustive: every source of length 0..3 over {0,1,2} (40 sources) x every history of "
    "length <=3 (quick) / <=4 (thorough) over the 25 core parametrised observations (one of them hands the history over to a deep copy), and of length "
    "<=2 (quick) / <=3 (thorough) over all 37 observations (negative starts/stops, deferred copies, "
    "interleaved iterators, ...); plus seeded random histories of length <=12 on sources of length "
    "<=8 with strings and nested lists. distinct_nontrivial = distinct (source, history) pairs with "
    "a non-empty history that ran to the end under the model (exhaustive units are disjoint by "
    "construction and counted; random ones are hashed)."
)
ASSUMPTIONS = [
    "indexing at a position >= len wraps around (src[i % len]); on the empty list it gives 0 "
    "(property text: 'indexing (with wrap-around for out-of-range positions)')",
    "results are compared as sequences / numbers / truth values: a slice may come back as a list "
    "or as a lazy list, a membership test as 1 or True",
    "ghost-truth monitor reads the internal attribute `generated` (secondary; reported "
    "unavailable if absent, the public lock-step oracle still decides)",
]
MIN_COUNTERS = {
    "observations": {"quick": 300_000, "thorough": 8_000_000},
    "final_enumerations": {"quick": 80_000, "thorough": 2_000_000},
    "random_histories": {"quick": 1_400, "thorough": 16_000},
}
UNIT_TIMEOUT = 900
MAX_INCONCLUSIVE_ABS = 3

CAP_EXTRA = 24  # enumeration bound = 4*len + CAP_EXTRA items (never an unbounded list())

# --------------------------------------------------------------------------
# observations (pure data, JSON-able; the same spec drives model and subject)
# --------------------------------------------------------------------------
S = lambda a, b, c=None: {"k": "slice", "a": a, "b": b, "c": c}  # noqa: E731

CORE_OPS = [
    {"k": "idx", "i": 0}, {"k": "idx", "i": 1}, {"k": "idx", "i": 2}, {"k": "idx", "i": 3},
    {"k": "neg", "i": -1}, {"k": "neg", "i": -2},
    {"k": "len"}, {"k": "iter"}, {"k": "iterk", "n": 1}, {"k": "bool"},
    {"k": "in", "v": 1},
    {"k": "eq", "w": "same"}, {"k": "eq", "w": "lazy"},
    {"k": "count", "v": 1},
    {"k": "rev"}, {"k": "copy"}, {"k": "listify"}, {"k": "usecopy"},
    {"k": "hasind", "i": 1},
    S(1, None), S(None, 2), S(0, 5), S(None, None, 2), S(None, None, -1), S(2, 0, -1),
]
EXT_OPS = [
    {"k": "idx", "i": 7}, {"k": "neg", "i": -3},
    {"k": "eq", "w": "prefix"}, {"k": "eq", "w": "longer"},
    {"k": "hasind", "i": 3}, {"k": "in", "v": 5},
    {"k": "copyd"}, {"k": "iter2"},
    S(-2, None), S(None, -1), S(-2, 3), S(2, None, -1),
]
ALL_OPS = CORE_OPS + EXT_OPS


def op_name(op):
    k = op["k"]
    if k == "slice":
        f = lambda x: "" if x is None else str(x)  # noqa: E731
        s = f"[{f(op['a'])}:{f(op['b'])}" + (f":{op['c']}" if op["c"] is not None else "") + "]"
        return s
    if k in ("idx", "neg"):
        return f"[{op['i']}]"
    if k == "iterk":
        return f"first {op['n']} by iteration"
    if k == "in":
        return f"{op['v']!r} in"
    if k == "eq":
        return f"== <{op['w']}>"
    if k == "count":
        return f"count({op['v']!r})"
    if k == "hasind":
        return f"has_ind({op['i']})"
    return {"rev": "reversed()", "copy": "deep_copy", "copyd": "deep_copy (enumerated last)",
            "usecopy": "deep_copy (later observations are made on the copy)",
            "iter2": "two interleaved iterators", "iter": "iterate", "len": "len", "bool": "bool",
            "listify": "listify()"}.get(k, k)


def op_kind(op, L):
    """Mechanism-level kind of an observation (which code path family)."""
    k = op["k"]
    if k == "slice":
        a, b, c = op["a"], op["b"], op["c"]
        kind = "slice-open" if b is None else "slice-bounded"
        if c is not None and c < 0:
            return kind + "-negstep"
        if a is not None and a < 0:
            return kind + "-negstart"
        if b is not None and b < 0:
            return kind + "-negstop"
        return kind
    if k == "idx":
        return "index-past-end" if op["i"] >= L else "index"
    if k == "neg":
        return "neg-index"
    if k == "eq":
        return "eq-" + op["w"]
    if k in ("copy", "copyd", "usecopy"):
        return "copy"
    if k in ("iterk", "iter2"):
        return "iter"
    return k


def applicable(op, L):
    if op["k"] == "neg":
        return -op["i"] <= L
    return True


def other_for_eq(w, src):
    if w == "same" or w == "lazy":
        return list(src)
    if w == "prefix":
        return list(src[:-1]) if src else [0]
    if w == "longer":
        return list(src) + [src[0] if src else 0]
    if w == "changed":
        return [src[0]] * len(src) if len(set(map(repr, src))) > 1 else list(src) + [src[0] if src else 0]
    raise ValueError(w)


def expect(op, src):
    """The same observation on the plain list (this is the whole model)."""
    k = op["k"]
    L = len(src)
    if k == "idx":
        return src[op["i"] % L] if L else 0
    if k == "neg":
        return src[op["i"]]
    if k == "len":
        return len(src)
    if k in ("iter", "listify", "copy"):
        return list(src)
    if k in ("copyd", "usecopy"):
        return None
    if k == "iter2":
        return [list(src), list(src)]
    if k == "iterk":
        return list(itertools.islice(iter(src), op["n"]))
    if k == "bool":
        return bool(src)
    if k == "in":
        return op["v"] in src
    if k == "eq":
        return src == other_for_eq(op["w"], src)
    if k == "count":
        return src.count(op["v"])
    if k == "rev":
        return list(reversed(src))
    if k == "hasind":
        return 0 <= op["i"] < L
    if k == "slice":
        return src[op["a"]:op["b"]:op["c"]]
    raise ValueError(k)


class NotASequence:
    def __init__(self, v):
        self.v = v

    def __eq__(self, other):
        return False

    def __repr__(self):
        return f"<not a sequence: {type(self.v).__name__} {self.v!r}>"[:120]


def seq(r, cap, LazyList):
    if type(r) is list:
        return r
    if isinstance(r, LazyList):
        return list(itertools.islice(iter(r), cap))
    if isinstance(r, tuple):
        return list(r)
    return NotASequence(r)


def observe(lazy, op, src, kept, cap, LazyList, deep_copy):
    """Perform the observation on the subject; normalise the answer to the
    model's vocabulary (list / int / bool)."""
    k = op["k"]
    if k == "idx" or k == "neg":
        return lazy[op["i"]]
    if k == "len":
        return len(lazy)
    if k == "iter":
        return list(itertools.islice(iter(lazy), cap))
    if k == "iterk":
        it = iter(lazy)
        out = list(itertools.islice(it, op["n"]))
        del it
        return out
    if k == "iter2":
        it1 = iter(lazy)
        first = list(itertools.islice(it1, 1))
        it2 = iter(lazy)
        second = list(itertools.islice(it2, cap))
        rest = list(itertools.islice(it1, cap))
        return [first + rest, second]
    if k == "bool":
        return bool(lazy)
    if k == "in":
        return bool(op["v"] in lazy)
    if k == "eq":
        other = other_for_eq(op["w"], src)
        if op["w"] == "lazy":
            other = LazyList(iter(other))
        return bool(lazy == other)
    if k == "count":
        return lazy.count(op["v"])
    if k == "rev":
        r = lazy.reversed()
        out = seq(r, cap, LazyList)
        kept.append((r, list(reversed(src)), "result of reversed()"))
        return out
    if k == "copy":
        c = deep_copy(lazy)
        out = seq(c, cap, LazyList)
        kept.append((c, list(src), "deep_copy"))
        return out
    if k == "copyd":
        c = deep_copy(lazy)
        kept.append((c, list(src), "deep_copy enumerated after later observations"))
        return None
    if k == "listify":
        return seq(lazy.listify(), cap, LazyList)
    if k == "hasind":
        return bool(lazy.has_ind(op["i"]))
    if k == "slice":
        r = lazy[op["a"]:op["b"]:op["c"]]
        out = seq(r, cap, LazyList)
        if isinstance(r, LazyList):
            kept.append((r, src[op["a"]:op["b"]:op["c"]], "lazy result of " + op_name(op)))
        return out
    raise ValueError(k)


# --------------------------------------------------------------------------
# diagnosis: shape of an anomaly (used for mechanism tags, never for the verdict)
# --------------------------------------------------------------------------
def _wrap_item(src, i):
    L = len(src)
    if i < 0:
        return src[i] if -i <= L else None
    return src[i % L] if L else 0


def seq_shape(op, src, obs, exp):
    if isinstance(obs, NotASequence):
        return "not-a-sequence"
    if op is not None and op["k"] == "slice":
        a, b, c = op["a"], op["b"], op["c"] or 1
        L = len(src)
        if b is not None and c > 0:
            stop = b if b >= 0 else L + b
            walk = [_wrap_item(src, i) for i in range(a or 0, stop, c)]
            if obs == walk:
                return "wraps"
            walk = []
            for i in range(a or 0, stop, c):
                if not 0 <= i < L:
                    break
                walk.append(src[i])
            if obs == walk:
                return "literal-walk-until-out-of-range"
        if b is None:
            walk = []
            i = a or 0
            while 0 <= i < L and len(walk) < 4 * L + 8:
                walk.append(src[i])
                i += c
            if obs == walk:
                return "forward-walk-only"
    if len(obs) < len(exp) and obs == exp[:len(obs)]:
        return "truncated"
    if len(obs) > len(exp) and obs[:len(exp)] == exp:
        return "too-long"
    if len(obs) == len(exp) and sorted(map(repr, obs)) == sorted(map(repr, exp)):
        return "reordered"
    return "wrong-items"


def result_shape(op, src, obs, exp):
    k = op["k"]
    if k in ("bool", "in", "eq", "hasind"):
        return "false-expected-true" if exp else "true-expected-false"
    if k == "len":
        if isinstance(obs, int):
            return "too-big" if obs > exp else "too-small"
        return "wrong-value"
    if k in ("idx", "neg", "count"):
        return "wrong-value"
    if k == "iter2":
        if isinstance(obs, list) and len(obs) == 2:
            a = "ok" if obs[0] == exp[0] else seq_shape(None, src, obs[0], exp[0])
            b = "ok" if obs[1] == exp[1] else seq_shape(None, src, obs[1], exp[1])
            return f"first:{a},second:{b}"
        return "wrong-value"
    if k == "copyd":
        return "wrong-value"
    return seq_shape(op, src, obs, exp)


def ghost_shape(b):
    g, t = b["generated"], b["truth"]
    if t and len(g) % len(t) == 0 and g == t * (len(g) // len(t)):
        return "cache-doubled" if len(g) == 2 * len(t) else "cache-repeated"
    if len(g) > len(t) and g[:len(t)] == t:
        return "cache-too-long"
    return "cache-diverged"


def state_label(pulled, L):
    if pulled is None:
        return "unknown"
    if L == 0:
        return "empty"
    if pulled == 0:
        return "fresh"
    if pulled < L:
        return "partial"
    return "complete"


# --------------------------------------------------------------------------
# running one history
# --------------------------------------------------------------------------
class _Rt:
    """Per-worker runtime (bound lazily so that nothing imports vyxal at
    module import time)."""
    LazyList = None
    deep_copy = None
    ghost = None


def setup_worker():
    from vyxal.LazyList import LazyList
    from vyxal.helpers import deep_copy
    from lib.models import lazyghost

    _Rt.LazyList = LazyList
    _Rt.deep_copy = deep_copy
    _Rt.ghost = lazyghost
    lazyghost.install()


def make_subject(src, mode):
    """`LazyList(iter(src))`; in mode 'gen' the iterator is a generator that
    counts pulls (a public way to know how far the source was consumed)."""
    LazyList = _Rt.LazyList
    pulls = [0]
    if mode == "gen":
        def source():
            for x in src:
                pulls[0] += 1
                yield x

        lazy = LazyList(source())
    else:
        pulls = None
        lazy = LazyList(iter(list(src)))
    _Rt.ghost.register(lazy, list(src))
    return lazy, pulls


def run_history(src, ops, mode="gen", exp_cache=None):
    """Returns (anomalies, n_observations, n_final, n_kept). Anomaly = dict."""
    LazyList, deep_copy, G = _Rt.LazyList, _Rt.deep_copy, _Rt.ghost
    L = len(src)
    cap = 4 * L + CAP_EXTRA
    lazy, pulls = make_subject(src, mode)
    kept = []
    anomalies = []
    nobs = 0
    gstate = G.state
    bc = gstate["breach_count"]
    corrupted = False
    for pos, op in enumerate(ops):
        before = pulls[0] if pulls is not None else _cache_len(lazy)
        exp = exp_cache[id(op)] if exp_cache is not None else expect(op, src)
        an = None
        nkept0 = len(kept)
        obs = None
        try:
            if op["k"] == "usecopy":
                # the copy takes over as the subject; the original is re-enumerated at the end
                c2 = deep_copy(lazy)
                kept.append((lazy, list(src), "the original after later observations on its copy"))
                lazy = c2
            else:
                obs = observe(lazy, op, src, kept, cap, LazyList, deep_copy)
        except Exception as e:  # noqa - an observation defined on a list must not raise
            an = {"anomaly": "raise", "shape": "raises-" + type(e).__name__, "observed": repr(e)[:160]}
            del kept[nkept0:]
        else:
            nobs += 1
            if obs != exp:
                an = {"anomaly": "result", "shape": result_shape(op, src, obs, exp), "observed": _j(obs)}
                del kept[nkept0:]  # already wrong now; re-enumerating it later adds nothing
        if gstate["breach_count"] != bc:
            bc = gstate["breach_count"]
            brs = G.drain()
            gs = ghost_shape(brs[0]) if brs else "cache-diverged"
            corrupted = True
            if an is None:
                an = {"anomaly": "ghost", "shape": "ghost:" + gs, "observed": _j(obs)}
            else:
                an["shape"] += "+ghost:" + gs
                an["anomaly"] += "+ghost"
            if brs:
                an["cache"] = _j(brs[0]["generated"])
                an["in_method"] = brs[0]["method"]
        if an is not None:
            an.update({"pos": pos, "op": op, "expected": _j(exp), "state": state_label(before, L),
                       "kind": op_kind(op, L)})
            anomalies.append(an)
            if corrupted:
                # everything after a corrupted cache is a consequence; show the public one
                try:
                    an["enumeration_after"] = _j(list(itertools.islice(iter(lazy), cap)))
                except Exception as e:  # noqa
                    an["enumeration_after"] = repr(e)[:120]
                G.drain()
                bc = gstate["breach_count"]
                break
    nfinal = 0
    nkept = 0
    if not corrupted:
        # "observations never change the sequence"
        before = pulls[0] if pulls is not None else _cache_len(lazy)
        try:
            final = list(itertools.islice(iter(lazy), cap))
            nfinal = 1
            if final != src:
                anomalies.append({"anomaly": "final", "shape": seq_shape(None, src, final, src), "pos": len(ops),
                                  "op": {"k": "final-enum"}, "kind": "final-enum", "observed": _j(final),
                                  "expected": _j(src), "state": state_label(before, L)})
        except Exception as e:  # noqa
            anomalies.append({"anomaly": "raise", "shape": "raises-" + type(e).__name__, "pos": len(ops),
                              "op": {"k": "final-enum"}, "kind": "final-enum", "observed": repr(e)[:160],
                              "expected": _j(src), "state": state_label(before, L)})
        for obj, want, what in kept:
            try:
                got = list(itertools.islice(iter(obj), cap))
                nkept += 1
                if got != want:
                    anomalies.append({"anomaly": "kept", "shape": seq_shape(None, src, got, want), "pos": len(ops),
                                      "op": {"k": "re-enum", "what": what}, "kind": "re-enum:" + what.split(" ")[0],
                                      "observed": _j(got), "expected": _j(want), "state": "complete"})
            except Exception as e:  # noqa
                anomalies.append({"anomaly": "raise", "shape": "raises-" + type(e).__name__, "pos": len(ops),
                                  "op": {"k": "re-enum", "what": what}, "kind": "re-enum:" + what.split(" ")[0],
                                  "observed": repr(e)[:160], "expected": _j(want), "state": "complete"})
        if gstate["breach_count"] != bc:
            brs = G.drain()
            anomalies.append({"anomaly": "ghost", "shape": "ghost:" + (ghost_shape(brs[0]) if brs else "cache-diverged"),
                              "pos": len(ops), "op": {"k": "final-enum"}, "kind": "final-enum", "observed": None,
                              "expected": _j(src), "state": "complete",
                              "cache": _j(brs[0]["generated"]) if brs else None})
    return anomalies, nobs, nfinal, nkept


def _cache_len(lazy):
    """Secondary: how much is materialised (None when the attribute is absent)."""
    g = getattr(lazy, "generated", None)
    return len(g) if isinstance(g, list) else None


def _j(v):
    if isinstance(v, NotASequence):
        return repr(v)
    if isinstance(v, (list, tuple)):
        return [_j(x) for x in v[:40]]
    if isinstance(v, (int, str, bool)) or v is None:
        return v
    return repr(v)[:80]


def tag_of(an):
    return f"{an['kind']}|{an['shape']}|{an['state']}"


def witness(src, ops, an, mode):
    upto = ops[: an["pos"] + 1] if an["pos"] < len(ops) else list(ops)
    hist = " ; ".join(op_name(o) for o in upto)
    opn = op_name(an["op"]) if an["op"]["k"] not in ("final-enum", "re-enum") else (
        "full enumeration afterwards" if an["op"]["k"] == "final-enum" else "re-enumeration of " + an["op"]["what"])
    what = (f"LazyList(iter({src!r})): history [{hist}] -> {opn} gave {an.get('observed')!r}, "
            f"plain list gives {an.get('expected')!r}")
    if "cache" in an and an["cache"] is not None:
        what += f"; cache after it = {an['cache']!r} (not a prefix of the source)"
    if "enumeration_after" in an:
        what += f"; iterating the lazy list afterwards gives {an['enumeration_after']!r}"
    return {
        "mechanism": tag_of(an),
        "what": what,
        "unit": {"kind": "hist", "src": src, "ops": upto, "mode": mode},
        "anomaly": {k: v for k, v in an.items() if k != "op"},
        "op": an["op"],
        "history_len": len(upto),
    }


def minimise(src, ops, an, mode):
    """Greedy: drop earlier observations while the same mechanism tag shows."""
    tag = tag_of(an)
    upto = list(ops[: an["pos"] + 1]) if an["pos"] < len(ops) else list(ops)
    last_is_op = an["pos"] < len(ops)
    changed = True
    best_an = an
    while changed and len(upto) > (1 if last_is_op else 0):
        changed = False
        for i in range(len(upto) - (1 if last_is_op else 0)):
            cand = upto[:i] + upto[i + 1:]
            try:
                ans, _, _, _ = run_history(src, cand, mode)
            except Exception:  # noqa
                continue
            hit = [a for a in ans if tag_of(a) == tag and (a["pos"] == len(cand) - 1 if last_is_op else a["pos"] == len(cand))]
            if hit:
                upto = cand
                best_an = hit[0]
                changed = True
                break
    return upto, best_an


class Collector:
    def __init__(self):
        self.by_tag = {}
        self.counts = {}

    def add(self, src, ops, an, mode):
        t = tag_of(an)
        self.counts[t] = self.counts.get(t, 0) + 1
        cur = self.by_tag.get(t)
        size = (an["pos"], len(src))
        if cur is None or size < cur[0]:
            self.by_tag[t] = (size, list(src), list(ops), an, mode)

    def witnesses(self, limit=20):
        out = []
        for t, (size, src, ops, an, mode) in sorted(self.by_tag.items(), key=lambda kv: kv[1][0])[:limit]:
            try:
                ops2, an2 = minimise(src, ops, an, mode)
            except Exception:  # noqa
                ops2, an2 = ops, an
            w = witness(src, ops2, an2, mode)
            w["occurrences_in_unit"] = self.counts[t]
            out.append(w)
        return out


# --------------------------------------------------------------------------
# work units
# --------------------------------------------------------------------------
def all_sources():
    out = []
    for L in range(4):
        out.extend(list(p) for p in itertools.product((0, 1, 2), repeat=L))
    return out


def units(tier, seed):
    u = []
    srcs = all_sources()
    core = list(range(len(CORE_OPS)))
    if tier == "quick":
        for s in srcs:
            u.append({"kind": "exh", "src": s, "set": "core", "maxlen": 3})
        for i in range(0, len(srcs), 4):
            u.append({"kind": "exhmulti", "srcs": srcs[i:i + 4], "set": "all", "maxlen": 2, "skip_core_only": True})
        for i in range(48):
            u.append({"kind": "rand", "seed": seed * 1_000_003 + i, "n": 150})
    else:
        for s in srcs:
            u.append({"kind": "exh", "src": s, "set": "core", "maxlen": 3})
            for f in core:
                u.append({"kind": "exh", "src": s, "set": "core", "len": 4, "first": f})
            u.append({"kind": "exh", "src": s, "set": "all", "maxlen": 3, "skip_core_only": True})
        for i in range(400):
            u.append({"kind": "rand", "seed": seed * 1_000_003 + i, "n": 200})
    return u


def _exh(src, opset, lengths, first, skip_core_only, res, col):
    ops = [o for o in opset if applicable(o, len(src))]
    exp_cache = {id(o): expect(o, src) for o in ops}
    ncore = len([o for o in CORE_OPS if applicable(o, len(src))])
    c = res["counters"]
    nh = 0
    for n in lengths:
        if first is not None:
            fo = opset[first]
            if not applicable(fo, len(src)):
                continue
            pools = [[fo]] + [ops] * (n - 1)
        else:
            pools = [ops] * n
        for hist in itertools.product(*pools):
            if skip_core_only and n > 0:
                # histories made of core observations only are enumerated by the core units
                if all(o in CORE_SET for o in map(id, hist)):
                    continue
            ans, nobs, nfin, nkept = run_history(src, hist, "gen", exp_cache)
            nh += 1
            c["observations"] += nobs
            c["final_enumerations"] += nfin
            c["kept_reenumerations"] += nkept
            if n > 0:
                res["distinct"] += 1
            for an in ans:
                col.add(src, hist, an, "gen")
    res["evals"] += nh
    c["histories_exhaustive"] += nh
    return ncore


CORE_SET = set()


def run_unit(unit):
    from lib.worker import watchdog, Watchdog
    from lib.harness import short_hash

    if _Rt.LazyList is None:
        setup_worker()
    G = _Rt.ghost
    res = {"evals": 0, "keys": [], "distinct": 0, "violations": [], "inconclusive": [], "skips": {},
           "counters": {"observations": 0, "final_enumerations": 0, "kept_reenumerations": 0,
                        "histories_exhaustive": 0, "random_histories": 0, "ghost_invariant_checks": 0},
           "samples": []}
    col = Collector()
    checks0 = G.state["checks"]
    G.drain()
    kind = unit["kind"]
    CORE_SET.clear()
    CORE_SET.update(id(o) for o in CORE_OPS)
    try:
        with watchdog(unit.get("watchdog", 600)):
            if kind in ("exh", "exhmulti"):
                opset = CORE_OPS if unit["set"] == "core" else ALL_OPS
                lengths = [unit["len"]] if "len" in unit else list(range(0, unit["maxlen"] + 1))
                for src in (unit["srcs"] if kind == "exhmulti" else [unit["src"]]):
                    _exh(src, opset, lengths, unit.get("first"), unit.get("skip_core_only", False), res, col)
                res["samples"].append({"source": unit.get("src", unit.get("srcs")), "histories": res["evals"],
                                       "example": [op_name(o) for o in opset[:3]]})
            elif kind == "rand":
                r = random.Random(unit["seed"])
                for _ in range(unit["n"]):
                    src = rnd_source(r)
                    ops = rnd_history(r, src)
                    mode = "gen" if r.random() < 0.5 else "iter"
                    ans, nobs, nfin, nkept = run_history(src, ops, mode)
                    res["evals"] += 1
                    res["counters"]["random_histories"] += 1
                    res["counters"]["observations"] += nobs
                    res["counters"]["final_enumerations"] += nfin
                    res["counters"]["kept_reenumerations"] += nkept
                    if ops:
                        res["keys"].append(short_hash([src, ops]))
                    for an in ans:
                        col.add(src, ops, an, mode)
                    if len(res["samples"]) < 1:
                        res["samples"].append({"source": src, "history": [op_name(o) for o in ops],
                                               "anomalies": [tag_of(a) for a in ans]})
            elif kind == "hist":
                ans, nobs, nfin, nkept = run_history(unit["src"], unit["ops"], unit.get("mode", "gen"))
                res["evals"] += 1
                res["counters"]["observations"] += nobs
                res["counters"]["final_enumerations"] += nfin
                res["keys"].append(short_hash([unit["src"], unit["ops"]]))
                for an in ans:
                    col.add(unit["src"], unit["ops"], an, unit.get("mode", "gen"))
            else:
                raise ValueError(kind)
            res["violations"] = col.witnesses(20)
    except Watchdog:
        res["inconclusive"].append({"why": "watchdog: an observation did not return (no verdict for this unit)",
                                    "unit": unit})
        res["violations"] = []
        for t, (size, src, ops, an, mode) in list(col.by_tag.items())[:20]:
            res["violations"].append(witness(src, ops, an, mode))
    res["counters"]["ghost_invariant_checks"] = G.state["checks"] - checks0
    if G.status() != "available":
        res["counters"]["ghost_monitor_unavailable"] = 1
    for t, n in col.counts.items():
        res["counters"]["anomalies:" + t] = n
    return res


# --------------------------------------------------------------------------
# random histories
# --------------------------------------------------------------------------
ITEM_POOL = [0, 1, 2, 3, 5, -1, 7, 10, "a", "ab", "", [1, 2], [0], [], [1, [2, 3]], ["a", 1]]


def rnd_source(r):
    L = r.choice([0, 1, 1, 2, 2, 3, 3, 4, 5, 6, 7, 8])
    flat = r.random() < 0.5
    pool = ITEM_POOL[:8] if flat else ITEM_POOL
    k = r.choice([2, 3, len(pool)])
    sub = r.sample(pool, min(k, len(pool)))
    return [_copy(r.choice(sub)) for _ in range(L)]


def _copy(x):
    return [_copy(y) for y in x] if isinstance(x, list) else x


def rnd_value(r, src):
    if src and r.random() < 0.7:
        return _copy(r.choice(src))
    return _copy(r.choice(ITEM_POOL))


def rnd_op(r, src):
    L = len(src)
    k = r.choice(["idx", "idx", "neg", "len", "iter", "iterk", "iter2", "bool", "in", "eq", "count", "rev",
                  "copy", "copyd", "usecopy", "listify", "hasind", "slice", "slice", "slice"])
    if k == "idx":
        return {"k": "idx", "i": r.choice([r.randint(0, max(0, L - 1)), L, L + 1, r.randint(0, 2 * L + 3)])}
    if k == "neg":
        if L == 0:
            return {"k": "len"}
        return {"k": "neg", "i": -r.randint(1, L)}
    if k == "iterk":
        return {"k": "iterk", "n": r.randint(0, L + 1)}
    if k in ("in", "count"):
        return {"k": k, "v": rnd_value(r, src)}
    if k == "eq":
        return {"k": "eq", "w": r.choice(["same", "lazy", "prefix", "longer", "changed"])}
    if k == "hasind":
        return {"k": "hasind", "i": r.randint(0, L + 2)}
    if k == "slice":
        def bound(allow_none=True):
            x = r.random()
            if allow_none and x < 0.3:
                return None
            if x < 0.8:
                return r.randint(0, L + 2)
            return -r.randint(1, L + 1)

        c = r.choice([None, None, None, 1, 2, 3, -1, -1, -2])
        return {"k": "slice", "a": bound(), "b": bound(), "c": c}
    return {"k": k}


def rnd_history(r, src):
    n = r.randint(1, 12)
    return [rnd_op(r, src) for _ in range(n)]


# --------------------------------------------------------------------------
# known findings (by mechanism: observation family + shape + cache state)
# --------------------------------------------------------------------------
def classify(w):
    m = w.get("mechanism", "")
    parts = m.split("|")
    if len(parts) != 3:
        return None
    kind, shape, state = parts
    if kind == "neg-index" and shape == "ghost:cache-doubled" and state in ("fresh", "partial", "complete", "unknown"):
        return "C13-negative-index-doubles-cache"
    if kind == "bool" and shape == "false-expected-true" and state in ("complete", "unknown"):
        return "C13-bool-false-after-exhaustion"
    if kind == "slice-bounded" and shape == "wraps":
        return "C13-bounded-slice-wraps-past-end"
    if kind == "slice-bounded-negstop" and shape == "wraps":
        return "C13-bounded-slice-wraps-past-end"
    if kind == "slice-open-negstep" and shape == "forward-walk-only":
        return "C13-negative-step-open-slice-loses-items"
    if kind == "slice-bounded-negstep" and shape == "raises-ValueError":
        return "C13-negative-step-bounded-slice-raises"
    if kind == "slice-open-negstart" and shape == "forward-walk-only":
        return "C13-open-slice-negative-start-empty"
    if kind == "slice-bounded-negstart" and (
        shape.startswith("wraps") or "ghost:cache-doubled" in shape or "ghost:cache-repeated" in shape
        or shape == "literal-walk-until-out-of-range"
        or (shape == "raises-IndexError" and state == "empty")
    ):
        # range(start, stop, step) is walked literally: negative positions are read one by one from the
        # end (each such read is the negative-index defect), then the walk continues past the end
        return "C13-bounded-slice-negative-start-walks-range-literally"
    return None


def finalize(agg, tier):
    c = agg["counters"]
    return {
        "exhaustive": True,
        "exhaustive_scope": "40 sources x histories <=%d over 24 core observations, <=%d over 36" % (
            (3, 2) if tier == "quick" else (4, 3)),
        "ghost_monitor": "unavailable" if c.get("ghost_monitor_unavailable") else "available",
        "anomaly_tags": {k[10:]: v for k, v in sorted(c.items()) if k.startswith("anomalies:")},
    }
