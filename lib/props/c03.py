"""C03 — literal contents and comments are data, never syntax.

Metamorphic monitor over the real `parse(tokenise(text))`: a program C[p] that
differs from C['a..'] only in the payload p of one literal must give the same
tree, except for the value of that one literal token (a comment leaves no trace
at all). The tree is flattened to an event list (structure class, modifier
character, branch boundaries, break/recurse parent, token kind + value); the
position of the literal in that list is *located by executing* the parser on
two harmless payloads ('a..', 'b..') and diffing, so nothing about the tree
layout is assumed. The same is done one level down on the token list.

Workloads: the bounded set of the property statement, exhaustively (64 fixed
contexts x 7 literal kinds x all payloads of length <= 2 over the
syntax-significant characters, plus a few payloads made of the literal
delimiters / escapes), and random nestings of the same frames with random
payloads (a few in quick, 300 k in thorough).

A secondary ride-along (counters and samples only, never a verdict) compares
the *generated Python* of C[p] and C['a'] modulo constants and random ids; it
exists to tell the lead whether a literal's value leaks into code generation
after parsing (e.g. the arity chosen for a modifier operand).
"""
from __future__ import annotations

import random
import re

from lib.gen import payloads as P

ID = "C03"
LEVEL = "exploration"
DESIGN_REF = "DESIGN.md §1 C03"
RULE = (
    "exhaustive part: 64 fixed contexts (16 structure positions, 16 modifier slots, 4 nested, 4 truncated, 12 with a break/recurse later in the branch of a modifier, 12 with 120-240 tokens of flat body around the literal) x 7 literal kinds x every payload of length <= 2 over the 28 "
    "syntax-significant characters the literal kind can hold (+ delimiter/escape payloads); each case is one "
    "parse of C[payload] compared event-by-event and token-by-token with the parse of C['a'*n]. Random part: "
    "random nestings (depth <= 4) of the same frames, random payloads of length <= 6. A case is non-trivial when "
    "its payload contains at least one syntax-significant character; exhaustive units are disjoint by "
    "construction (counted), random cases are counted by distinct program text."
)
ASSUMPTIONS = [
    "the tree is read through Structure.branches / .modifier and Token.name / .value (the public shape of the parse result)",
    "payload 'a'*n is harmless in every literal kind (checked at run time against 'b'*n: exactly one token may differ)",
    "transpile-level comparison: generated Python of C[p] must equal that of C['a'] up to one constant (wherever it is emitted) and random ids",
]
MIN_COUNTERS = {
    "parse_compared": {"quick": 30000, "thorough": 60000},
    "tokens_compared": {"quick": 30000, "thorough": 60000},
    "contexts_located": {"quick": 64, "thorough": 64},
    "secondary_transpile_compared": {"quick": 3000, "thorough": 3000},
}
UNIT_TIMEOUT = 600

RANDOM_UNIT = 2000
EXTRA_PAYLOADS = {
    "string": ["`", "\\", "`|", "\\|", "|`", "\\`", "|\\", "«", "»", "#", "‛", "\n", "a|", "|a", "|||"],
    "twochar": ["`|", "\\`", "#|", "‛|", "«|", "|\n", "\\|", "|\\", "|a", "a|"],
    "char": ["`", "\\", "#", "«", "»", "‛", "⁺", "\n", "→", "k", "+", "∇", "W", "$", "!"],
    "cstring": ["»", "`", "#", "\\", "\\|", "|\\", "‛", "\n", "a|", "|a", "|||"],
    "cnumber": ["«", "`", "#", "\\", "\\|", "|\\", "‛", "\n", "a|", "|a", "|||"],
    "cpnumber": ["`", "\\", "#", "«", "»", "‛", "⁺", "\n", "→", "k", "+", "∇", "W"],
    "comment": ["`", "\\", "#", "«", "»", "‛", "⁺", "`|", "«|", "\\|", "|\\", "→", "a|", "|a", "|||"],
}


def units(tier, seed):
    u = [{"kind": "exhaustive", "ctx": c["id"]} for c in P.C03_CONTEXTS]
    nrand = 16 if tier == "quick" else 150
    for i in range(nrand):
        u.append({"kind": "random", "seed": seed * 100003 + i, "n": RANDOM_UNIT})
    return u


def setup_worker():
    pass


# --------------------------------------------------------------------------
# observation: the parse result as a flat event list
# --------------------------------------------------------------------------

def _flatten(x, out):
    from vyxal.lexer import Token

    if isinstance(x, Token):
        out.append(("tok", x.name.value, x.value))
    elif hasattr(x, "branches"):
        out.append(("open", type(x).__name__, getattr(x, "modifier", None)))
        for b in x.branches:
            out.append(("branch",))
            _flatten(b, out)
        out.append(("close",))
    elif isinstance(x, (list, tuple)):
        out.append(("list",))
        for y in x:
            _flatten(y, out)
        out.append(("end",))
    elif isinstance(x, type):
        out.append(("class", x.__name__))
    else:
        out.append(("val", x if isinstance(x, (str, int, type(None))) else repr(x)))


def observe(text):
    """-> (token events, tree events) of the real lexer and parser."""
    from vyxal import lexer, parse

    toks = lexer.tokenise(text)
    tk = [(t.name.value, t.value) for t in toks]
    tree = parse.parse(toks)
    ev = []
    _flatten(tree, ev)
    return tk, ev


def _diff_indices(a, b):
    if len(a) != len(b):
        return None
    return [i for i in range(len(a)) if a[i] != b[i]]


class Located:
    """Reference observation for one (context, kind, payload length)."""

    __slots__ = ("tk", "ev", "ti", "ei", "ok", "why")


def locate(ctx, kind, n=1):
    """Run the parser on the harmless payloads 'a'*m and 'b'*m (m = the kind's
    fixed width, else 1); the single differing token and tree leaf is the
    literal. The 'a' observation is the reference every payload is compared to."""
    tkind, fixed = P.LITERAL_KINDS[kind]
    loc = Located()
    loc.ok, loc.why = True, ""
    loc.ti = loc.ei = None
    m = fixed if fixed is not None else 1
    try:
        tk_a, ev_a = observe(P.build_program(ctx, kind, "a" * m))
        tk_b, ev_b = observe(P.build_program(ctx, kind, "b" * m))
    except Exception as e:  # noqa
        loc.ok, loc.why = False, f"reference raised {e!r}"
        return loc
    dt, de = _diff_indices(tk_a, tk_b), _diff_indices(ev_a, ev_b)
    if tkind is None:
        if dt != [] or de != []:
            loc.ok, loc.why = False, "harmless comment payloads give different observations"
    else:
        if dt is None or de is None or len(dt) != 1 or len(de) != 1:
            loc.ok, loc.why = False, f"harmless payloads differ at tokens {dt} / tree events {de}"
            return loc
        loc.ti, loc.ei = dt[0], de[0]
        if tk_a[loc.ti][0] != tkind or ev_a[loc.ei][:2] != ("tok", tkind):
            loc.ok, loc.why = False, f"literal lexes as {tk_a[loc.ti]!r}, expected kind {tkind}"
            return loc
    loc.tk, loc.ev = tk_a, ev_a
    return loc


# --------------------------------------------------------------------------
# the monitor
# --------------------------------------------------------------------------

def value_class(v):
    from vyxal import parse

    if v == "|":
        return "bar"
    if v == parse.BREAK_CHARACTER:
        return "break-char"
    if v == parse.RECURSE_CHARACTER:
        return "recurse-char"
    if v in parse.MONADIC_MODIFIERS or v in parse.DYADIC_MODIFIERS or v in parse.TRIADIC_MODIFIERS:
        return "modifier-char"
    if v and v in parse.OPENING_CHARACTERS:
        return "opener-char"
    if v and v in parse.CLOSING_CHARACTERS:
        return "closer-char"
    return "other"


def _effect(ref_ev, got_ev, ei):
    """Describe what changed in the tree (observed, for the witness)."""
    if got_ev is None:
        return "parse-raises"
    names_ref = [e[1] for e in ref_ev if e[0] == "open"]
    names_got = [e[1] for e in got_ev if e[0] == "open"]
    if names_ref != names_got:
        new = [n for n in names_got if names_got.count(n) > names_ref.count(n)]
        gone = [n for n in names_ref if names_ref.count(n) > names_got.count(n)]
        return ("structures gained [" + ",".join(sorted(set(new))) + "] lost [" + ",".join(sorted(set(gone))) + "]")
    nb_ref = sum(1 for e in ref_ev if e[0] in ("branch", "list"))
    nb_got = sum(1 for e in got_ev if e[0] in ("branch", "list"))
    if len(ref_ev) != len(got_ev) or nb_ref != nb_got:
        return "branch-or-token-count-changed"
    return "other-token-changed"


def check_case(ctx, kind, payload, loc, res, unit_for_replay):
    """One metamorphic comparison. Returns "held" or "violated"."""
    c = res["counters"]
    tkind, _ = P.LITERAL_KINDS[kind]
    text = P.build_program(ctx, kind, payload)
    problems = []
    tk = ev = None
    raised = None
    try:
        tk, ev = observe(text)
    except Exception as e:  # noqa
        raised = repr(e)
        # token level can still be observed
        try:
            from vyxal import lexer

            tk = [(t.name.value, t.value) for t in lexer.tokenise(text)]
        except Exception as e2:  # noqa
            problems.append(("lexer-raises", repr(e2)))
    # --- token level ------------------------------------------------------
    lit_value = None
    if tk is not None:
        c["tokens_compared"] = c.get("tokens_compared", 0) + 1
        d = _diff_indices(loc.tk, tk)
        if d is None:
            problems.append(("token-count", f"{len(loc.tk)} tokens with the harmless payload, {len(tk)} with this one"))
        else:
            extra = [i for i in d if i != loc.ti]
            if extra:
                i = extra[0]
                problems.append(("other-token", f"token #{i} changed from {loc.tk[i]!r} to {tk[i]!r}"))
            elif loc.ti is not None and tk[loc.ti][0] != tkind:
                problems.append(("token-kind", f"literal token became {tk[loc.ti]!r}"))
            if loc.ti is not None and not extra and len(tk) > loc.ti:
                lit_value = tk[loc.ti][1]
    token_level_bad = bool(problems)
    # --- tree level -------------------------------------------------------
    if raised is not None:
        problems.append(("parse-raises", raised))
    elif ev is not None:
        c["parse_compared"] = c.get("parse_compared", 0) + 1
        d = _diff_indices(loc.ev, ev)
        if d is None:
            problems.append(("tree-shape", f"{len(loc.ev)} tree events with the harmless payload, {len(ev)} with this one"))
        else:
            extra = [i for i in d if i != loc.ei]
            if extra:
                i = extra[0]
                problems.append(("tree-shape", f"tree event #{i} changed from {loc.ev[i]!r} to {ev[i]!r}"))
            elif loc.ei is not None and ev[loc.ei][:2] != ("tok", tkind):
                problems.append(("tree-shape", f"literal leaf became {ev[loc.ei]!r}"))
    if not problems:
        return "held"
    # --- witness ----------------------------------------------------------
    vclass = value_class(lit_value) if lit_value is not None else "unknown"
    if token_level_bad:
        mech = f"lexer:{problems[0][0]}:{kind}"
    else:
        mech = f"parser:{vclass}:{kind}"
    effect = _effect(loc.ev, ev, loc.ei)
    c["violations_total"] = c.get("violations_total", 0) + 1
    c["viol:" + mech] = c.get("viol:" + mech, 0) + 1
    per = res["_per_mech"]
    per[mech] = per.get(mech, 0) + 1
    if per[mech] <= 2 and len(res["violations"]) < 90:
        ref_text = P.build_program(ctx, kind, P.reference_payload(kind, "a"))
        res["violations"].append({
            "mechanism": mech,
            "what": f"{text!r} vs {ref_text!r}: {problems[-1][1]} ({effect}); literal kind {kind}, token value {lit_value!r}",
            "unit": unit_for_replay(payload),
            "program": text, "reference": ref_text, "kind": kind, "payload": payload,
            "context": ctx["id"], "group": ctx["group"], "value_class": vclass, "level": "lexer" if token_level_bad else "parser",
            "literal_token_value": lit_value, "effect": effect, "problems": [list(p) for p in problems],
        })
    return "violated"


_HEX = re.compile(r"[0-9a-f]{32}")


def _py_shape(code):
    """(shape with constants blanked, list of constants in walk order)."""
    import ast

    tree = ast.parse(code)
    consts = []
    for node in ast.walk(tree):
        if isinstance(node, ast.Constant):
            consts.append(repr(node.value))
            node.value = 0
            node.kind = None
    return _HEX.sub("ID", ast.dump(tree)), consts


def secondary_transpile(ctx, kind, payload, res):
    """Informational: is the generated Python of C[p] the generated Python of
    C['a'] with one constant replaced (everywhere it is emitted)? Counters and
    samples only, never a verdict."""
    from vyxal.transpile import transpile

    c = res["counters"]
    prog = P.build_program(ctx, kind, payload)
    try:
        b = transpile(P.build_program(ctx, kind, P.reference_payload(kind, "a")))
        sb, cb = _py_shape(b)
    except Exception:  # noqa  (the harmless variant itself is not transpilable here)
        c["secondary_skipped"] = c.get("secondary_skipped", 0) + 1
        return
    try:
        a = transpile(prog)
    except Exception as e:  # noqa
        if kind in ("string", "twochar", "char", "comment"):
            # text literals and comments hold arbitrary characters: a payload that makes the transpiler give
            # up on a program it translates with a harmless payload was not treated as data
            key = f"codegen_differs:transpile-raises:{kind}"
            c[key] = c.get(key, 0) + 1
            if c[key] <= 3 and len(res["violations"]) < 20:
                res["violations"].append({
                    "mechanism": f"codegen:transpile-raises:{kind}",
                    "what": f"transpile({prog!r}) raises {type(e).__name__}: {str(e)[:120]}; with a harmless payload in the "
                            f"same literal the program transpiles",
                    "unit": {"kind": "single", "ctx": ctx["id"], "lit": kind, "payload": payload, "codegen": True},
                    "program": prog, "literal_kind": kind,
                })
        else:  # compressed payloads may be undecodable: C15's subject
            c["secondary_skipped"] = c.get("secondary_skipped", 0) + 1
        return
    try:
        sa, ca = _py_shape(a)
    except Exception:  # noqa  (output does not compile: C02's subject)
        c["secondary_skipped"] = c.get("secondary_skipped", 0) + 1
        return
    c["secondary_transpile_compared"] = c.get("secondary_transpile_compared", 0) + 1
    what = None
    if sa != sb or len(ca) != len(cb):
        what = "python-shape"
    else:
        pairs = {(x, y) for x, y in zip(ca, cb) if x != y}
        limit = 0 if kind == "comment" else 1
        if len(pairs) > limit:
            what = "second-constant"
    if what:
        # promoted to a verdict by the lead: the statement's second sentence ("changes only the value
        # that one literal pushes") is about behaviour, and generated code that differs from the harmless
        # variant in anything but that one constant changes more than the pushed value (seen on the pinned
        # tree: a character literal used as a modifier operand received the arity of the element it spells)
        key = f"codegen_differs:{what}:{kind}"
        c[key] = c.get(key, 0) + 1
        if c[key] <= 3 and len(res["violations"]) < 20:
            res["violations"].append({
                "mechanism": f"codegen:{what}:{kind}",
                "what": f"generated Python of {prog!r} differs from the variant with a harmless payload by more than "
                        f"the literal's constant ({what})",
                "unit": {"kind": "single", "ctx": ctx["id"], "lit": kind, "payload": payload, "codegen": True},
                "program": prog, "literal_kind": kind,
            })


def run_unit(unit):
    res = {"evals": 0, "keys": [], "distinct": 0, "violations": [], "inconclusive": [], "skips": {},
           "counters": {}, "samples": [], "_per_mech": {}}
    if unit["kind"] == "exhaustive":
        _run_exhaustive(unit, res)
    elif unit["kind"] == "random":
        _run_random(unit, res)
    elif unit["kind"] == "single":
        _run_single(unit, res)
    res.pop("_per_mech", None)
    res["samples"] = res["samples"][:2] + res.pop("_secondary", [])[:2]
    return res


def _loc_or_inconclusive(ctx, kind, n, cache, res):
    key = kind
    if key not in cache:
        loc = locate(ctx, kind, n)
        cache[key] = loc
        if not loc.ok:
            if loc.why.startswith("reference raised"):
                res["inconclusive"].append({"why": "context self-check: " + loc.why, "context": ctx["id"], "kind": kind,
                                            "pre": ctx["pre"], "post": ctx["post"]})
            else:
                # two *harmless* payloads ('a…' / 'b…') of this literal kind already change more than the one
                # literal (or a comment's text is visible at all): that is the property failing, not the harness
                m = P.LITERAL_KINDS[kind][1] or 1
                res["violations"].append({
                    "mechanism": f"harmless-payloads-diverge:{kind}",
                    "what": (f"{P.build_program(ctx, kind, 'a' * m)!r} vs {P.build_program(ctx, kind, 'b' * m)!r}: "
                             f"{loc.why} (literal kind {kind}, context {ctx['id']})"),
                    "unit": {"kind": "single", "ctx": ctx["id"], "lit": kind, "payload": "b" * m},
                    "literal_kind": kind,
                })
    return cache[key]


def _run_exhaustive(unit, res):
    ctx = P.C03_BY_ID[unit["ctx"]]
    cache = {}
    c = res["counters"]
    located_all = True
    for kind in P.KIND_ORDER:
        plist = list(P.exhaustive_payloads(kind, 2)) + [p for p in EXTRA_PAYLOADS[kind] if P.payload_ok(kind, p)]
        for payload in plist:
            loc = _loc_or_inconclusive(ctx, kind, len(payload), cache, res)
            if not loc.ok:
                located_all = False
                continue

            def replay(p, kind=kind):
                return {"kind": "single", "ctx": ctx["id"], "lit": kind, "payload": p}

            verdict = check_case(ctx, kind, payload, loc, res, replay)
            res["evals"] += 1
            if any(ch in P.SYNTAX_CHARS for ch in payload):
                res["distinct"] += 1
            if len(payload) == 1 and verdict == "held":
                secondary_transpile(ctx, kind, payload, res)
            elif verdict == "held" and (sum(map(ord, payload)) % 7 == 0):
                secondary_transpile(ctx, kind, payload, res)
    if located_all:
        c["contexts_located"] = 1
    if ctx["id"] in ("top", "if-elif-cond", "mod-₌-B", "deep-function-sort-if", "trunc-list-while"):
        res["samples"].append({"context": ctx["id"], "program": P.build_program(ctx, "cstring", "|;"),
                               "reference": P.build_program(ctx, "cstring", "a"), "tree_events": len(cache["cstring"].ev)})


def _run_random(unit, res):
    from vyxal import encoding

    r = random.Random(unit["seed"])
    cp = encoding.codepage
    for i in range(unit["n"]):
        ctx = P.random_context(r)
        kind = r.choice(P.KIND_ORDER)
        payload = P.random_payload(r, kind, cp)
        loc = locate(ctx, kind, len(payload))
        if not loc.ok:
            # a random frame combination whose reference is not usable (e.g. the
            # harmless literal sits where the parser itself fails): discarded
            res["skips"]["random-context-unusable"] = res["skips"].get("random-context-unusable", 0) + 1
            continue

        def replay(p, ctx=ctx, kind=kind):
            return {"kind": "single", "pre": ctx["pre"], "post": ctx["post"], "open_literal": ctx["open_literal"],
                    "lit": kind, "payload": p}

        check_case(ctx, kind, payload, loc, res, replay)
        res["evals"] += 1
        if any(ch in P.SYNTAX_CHARS for ch in payload):
            from lib.harness import short_hash

            res["keys"].append(short_hash([ctx["pre"], ctx["post"], ctx["open_literal"], kind, payload]))
        if i == 0:
            res["samples"].append({"random": True, "program": P.build_program(ctx, kind, payload), "kind": kind})
    res["counters"]["random_cases"] = res["evals"]


def _run_single(unit, res):
    if "ctx" in unit:
        ctx = P.C03_BY_ID[unit["ctx"]]
    else:
        ctx = {"id": "random", "group": "random", "pre": unit["pre"], "post": unit["post"],
               "open_literal": unit.get("open_literal", False)}
    kind, payload = unit["lit"], unit["payload"]
    loc = _loc_or_inconclusive(ctx, kind, len(payload), {}, res)
    if not loc.ok:
        return
    check_case(ctx, kind, payload, loc, res, lambda p: unit)
    res["evals"] += 1
    if unit.get("codegen"):
        secondary_transpile(ctx, kind, payload, res)
    res["distinct"] += 2


# kinds in which each value class is known to misparse on the pinned tree
# (a new kind or a new class is NOT claimed by any known finding)
_KNOWN = {
    "bar": ({"string", "char", "cstring", "cnumber", "cpnumber"}, "C03-literal-bar-splits-branch"),
    "break-char": ({"cstring", "cnumber", "cpnumber"}, "C03-literal-value-read-as-break-recurse"),
    "recurse-char": ({"cstring", "cnumber", "cpnumber"}, "C03-literal-value-read-as-break-recurse"),
    "modifier-char": ({"cstring", "cnumber", "cpnumber"}, "C03-literal-value-read-as-modifier"),
}


def classify(w):
    if w.get("level") != "parser":
        return None
    ent = _KNOWN.get(w.get("value_class"))
    if ent and w.get("kind") in ent[0]:
        return ent[1]
    return None


def finalize(agg, tier):
    out = {"exhaustive": True,
           "exhaustive_scope": "64 fixed contexts x 7 literal kinds x payload length <= 2 over 28 syntax characters; the random part is sampled"}
    sec = {k: v for k, v in agg["counters"].items() if k.startswith("secondary_")}
    if sec:
        out["secondary_observations"] = sec
    return out
