"""C17 — number-theory builtins agree with their definitions.

LAWS = (name, program text, arity, domain, rhs).  The left-hand side executes
the real interpreter on the program text; the argument reaches the element in
three ways: as a Python int on the stack, as a sympy Integer on the stack and
as a numeric literal inside the program text (`"255 H"`, the realistic path:
lexer -> number token -> sympy Integer).  The right-hand side is a naive
textbook reference (trial division, divisor scan, Euclid, iterative factorial,
Pascal's triangle, gcd count / product formula, linear scan, repeated division)
and never touches repo code or sympy.

Equality is exact *and typed*: results are compared after lib.values.canon,
which maps int / sympy Integer / Rational to exact JSON numbers and anything
else (float, unevaluated sympy object, bool, None) to a tagged object that
never equals an expected number."""
from __future__ import annotations

import json
import random

ID = "C17"
LEVEL = "exploration"
DESIGN_REF = "DESIGN.md §1 C17"
N_MAX = {"quick": 2000, "thorough": 20000}      # exhaustive n in 0..N_MAX
PAIR_MAX = {"quick": 100, "thorough": 300}      # all pairs (n, m) with n, m <= PAIR_MAX
RANDOM_UNITS = {"quick": 24, "thorough": 160}
RANDOM_PER_UNIT = 30
BIG = 10 ** 12
RANGES_ALL_MAX = 5000                           # all four ranges x both stack variants up to here; above, one
                                                # range element per n in rotation (results are n items long)
TOTIENT_COUNT_MAX = 3000                        # totient by gcd count up to here, product formula above
RULE = (
    "law instance = (law, argument tuple, int|sympy|literal; the literal variant, 40x slower because of the "
    "literal's own lowering, runs on n < 48, every 16th n, every 8th pair, all special numbers and a third of "
    "the random ones, and only when the literal alone pushes exactly n); exhaustive part: every n in 0..2000 (quick) / "
    "0..20000 (thorough) through every monadic law (0 excluded where the textbook definition does not "
    "exist: prime factors, divisors, totient), every pair (n, m) <= 100 / <= 300 through gcd, lcm, binomial; "
    "special part: every base-2 Fermat pseudoprime below 300 000, Chernick Carmichael numbers below 10^12, "
    "2^k and 2^k +- 1, 10^k and 10^k +- 1, squares and cubes of primes, semiprimes of large primes, primes "
    "next to 10^6 and 10^12, every n inside each of the 45 maximal prime gaps below 10^12 (next prime), and the laws "
    "again on ~300 n after each of 7 programs with large arguments ran in the same process; random part: n to 10^12, pairs to 10^12 for gcd/lcm, binomial to n = 2000. "
    "distinct_nontrivial counts distinct argument tuples other than (0), (1) and pairs containing 0 or 1 "
    "(exhaustive units are disjoint by construction and counted; special and random tuples are hashed)."
)
ASSUMPTIONS = [
    "references are naive loops over Python ints (trial division to sqrt(n), so n <= 10^12)",
    "totient reference is the gcd count for n <= 3000 and the product formula over the trial-division "
    "factorisation above (the two are cross-checked against each other for every n <= 3000)",
    "factorial and the four ranges are run for n <= N_MAX only (their results grow with n); above n = 5000 "
    "each n goes through one of the four range elements in rotation instead of all four",
    "0 is outside the domain of prime factors, distinct prime factors, divisors and totient (no textbook value)",
]
UNIT_TIMEOUT = 1800
CASE_SECONDS = 60

# ---------------------------------------------------------------------------
# naive references


_PRIME_MEMO = {}


def is_prime(n):
    if n > 10 ** 6:
        # trial division to sqrt(n) costs up to a million steps: remembered (the gap workload asks again)
        if n not in _PRIME_MEMO:
            if len(_PRIME_MEMO) > 200000:
                _PRIME_MEMO.clear()
            _PRIME_MEMO[n] = _is_prime(n)
        return _PRIME_MEMO[n]
    return _is_prime(n)


def _is_prime(n):
    if n < 2:
        return False
    if n < 4:
        return True
    if n % 2 == 0 or n % 3 == 0:
        return False
    d = 5
    while d * d <= n:
        if n % d == 0 or n % (d + 2) == 0:
            return False
        d += 6
    return True


_FACTORS = {}


def factorise(n):
    """prime factors with multiplicity, ascending (n >= 1); trial division"""
    if n not in _FACTORS:
        if len(_FACTORS) > 64:
            _FACTORS.clear()
        _FACTORS[n] = _factorise(n)
    return list(_FACTORS[n])


def _factorise(n):
    out = []
    d = 2
    while d * d <= n:
        while n % d == 0:
            out.append(d)
            n //= d
        d += 1 if d == 2 else 2
    if n > 1:
        out.append(n)
    return out


def divisors(n):
    small, large = [], []
    d = 1
    while d * d <= n:
        if n % d == 0:
            small.append(d)
            if d * d != n:
                large.append(n // d)
        d += 1
    return small + large[::-1]


def euclid(a, b):
    while b:
        a, b = b, a % b
    return a


def lcm(a, b):
    if a == 0 or b == 0:
        return 0
    return a // euclid(a, b) * b


def totient_count(n):
    return sum(1 for k in range(1, n + 1) if euclid(n, k) == 1)


def totient_formula(n):
    res = n
    for p in sorted(set(factorise(n))):
        res = res // p * (p - 1)
    return res


def next_prime(n):
    k = n + 1
    while not is_prime(k):
        k += 1
    return k


def bits(n):
    if n == 0:
        return [0]
    out = []
    while n:
        out.append(n % 2)
        n //= 2
    return out[::-1]


def hexstr(n):
    if n == 0:
        return "0"
    out = ""
    while n:
        out = "0123456789abcdef"[n % 16] + out
        n //= 16
    return out


def isqrt_exact(n):
    """k with k*k == n, else None (binary search)"""
    lo, hi = 0, n + 1
    while lo < hi:
        mid = (lo + hi) // 2
        if mid * mid < n:
            lo = mid + 1
        else:
            hi = mid
    return lo if lo * lo == n else None


_PASCAL = {}


def pascal_row(n):
    """row n of Pascal's triangle by additions only"""
    if n in _PASCAL:
        return _PASCAL[n]
    row = [1]
    start = 0
    best = max((k for k in _PASCAL if k <= n), default=None)
    if best is not None:
        row, start = _PASCAL[best], best
    for _ in range(start, n):
        row = [1] + [row[i] + row[i + 1] for i in range(len(row) - 1)] + [1]
    if len(_PASCAL) > 8:
        _PASCAL.clear()
    _PASCAL[n] = row
    return row


def binomial(n, k):
    if k < 0 or k > n:
        return 0
    return pascal_row(n)[k]


_FACT = [0, 1]      # running factorial: _FACT = [n, n!]


def factorial(n):
    if n < _FACT[0]:
        _FACT[0], _FACT[1] = 0, 1
    while _FACT[0] < n:
        _FACT[0] += 1
        _FACT[1] *= _FACT[0]
    return _FACT[1]


def digits(n):
    return [int(c) for c in str(n)]


def groups(seq):
    out = []
    for x in seq:
        if out and out[-1][0] == x:
            out[-1].append(x)
        else:
            out.append([x])
    return out


def prefix_sums(seq):
    out, t = [], 0
    for x in seq:
        t += x
        out.append(t)
    return out


# ---------------------------------------------------------------------------
# expectations

def EQ(*stack_values):
    return ("eq", list(stack_values))


def SKIP(reason):
    return ("skip", reason)


def RANGE(lo, hi):
    """expected: the list lo, lo+1, ..., hi-1 (compared by streaming, not materialised twice)"""
    return ("range", [lo, hi])


def r_is_prime(n):
    return EQ(1 if is_prime(n) else 0)


def r_prime_factors(n):
    if n == 0:
        return SKIP("0 has no prime factorisation")
    return ("ascending", [factorise(n)])


def r_distinct_prime_factors(n):
    if n == 0:
        return SKIP("0 has no prime factorisation")
    return EQ(sorted(set(factorise(n))))


def r_divisors(n):
    if n == 0:
        return SKIP("every integer divides 0")
    return EQ(divisors(n))


def r_gcd(a, b):
    return EQ(euclid(a, b))


def r_gcd_list(a, b):
    return EQ(euclid(a, b))


def r_lcm(a, b):
    return EQ(lcm(a, b))


def r_factorial(n):
    return EQ(factorial(n))


def r_binomial(n, k):
    return EQ(binomial(n, k))


def r_orderless_range(a, b):
    """from a towards b, b excluded, counting up or down; empty when they are equal"""
    return EQ(list(range(a, b, 1 if a <= b else -1)))


def r_totient(n):
    if n == 0:
        return SKIP("totient is defined for positive integers")
    if n <= TOTIENT_COUNT_MAX:
        t = totient_count(n)
        if t != totient_formula(n):
            raise AssertionError(f"reference self-check failed at {n}")
        return EQ(t)
    return EQ(totient_formula(n))


def r_next_prime(n):
    return EQ(next_prime(n))


def r_is_square(n):
    return EQ(1 if isqrt_exact(n) is not None else 0)


def r_bin(n):
    b = bits(n)
    if "0b" + "".join(map(str, b)) != bin(n):
        raise AssertionError("reference self-check failed")
    return EQ(b)


def r_identity(n):
    return EQ(n)


def r_hex(n):
    h = hexstr(n)
    if h != "%x" % n:
        raise AssertionError("reference self-check failed")
    return EQ(h)


def r_from_bin_string(n):
    return EQ(n)


def r_range_1_incl(n):
    return RANGE(1, n + 1)


def r_range_0_incl(n):
    return RANGE(0, n + 1)


def r_range_1_excl(n):
    return RANGE(1, max(1, n))


def r_range_0_excl(n):
    return RANGE(0, n)


def r_square(n):
    return EQ(n * n)


def r_sqrt_of_square(n):
    k = isqrt_exact(n)
    if k is None:
        return SKIP("not a perfect square")
    return EQ(k)


def r_double(n):
    return EQ(2 * n)


def r_halve_even(n):
    if n % 2:
        return EQ({"q": [n, 2]})
    return EQ(n // 2)


def r_digits(n):
    return EQ(digits(n))


def r_digit_sum(n):
    return EQ(sum(digits(n)))


def r_digit_reverse(n):
    return EQ(int(str(n)[::-1]))


def r_digit_groups(n):
    return EQ(groups(digits(n)))


def r_digit_prefix_sums(n):
    return EQ(prefix_sums(digits(n)))


def r_digit_split(n):
    return ("stack", digits(n))


# domains: "n" every n; "n-small" n <= N_MAX only (result grows with n); "pair" (n, m); "pair-list" one list [n, m]
LAWS = [
    # (name, program, arity, domain, rhs)
    ("is-prime", "æ", 1, "n", r_is_prime),
    ("prime-factors", "ǐ", 1, "n", r_prime_factors),
    ("distinct-prime-factors", "Ǐ", 1, "n", r_distinct_prime_factors),
    ("divisors", "K", 1, "n", r_divisors),
    ("gcd", "ġ", 2, "pair", r_gcd),
    ("gcd-of-list", "ġ", 1, "pair-list", r_gcd_list),
    ("lcm", "∆Ŀ", 2, "pair", r_lcm),
    ("lcm-of-list", "∆Ŀ", 1, "pair-list", r_lcm),
    ("factorial", "¡", 1, "n-small", r_factorial),
    ("binomial", "ƈ", 2, "pair-binomial", r_binomial),
    ("orderless-range", "r", 2, "pair-binomial", r_orderless_range),
    ("totient", "∆ṫ", 1, "n", r_totient),
    ("next-prime", "∆Ṗ", 1, "n", r_next_prime),
    ("is-square", "∆²", 1, "n", r_is_square),
    ("to-binary", "b", 1, "n", r_bin),
    ("from-binary-digits", "B", 1, "n-as-bits", r_from_bin_string),
    ("from-binary-string", "B", 1, "n-as-binstr", r_from_bin_string),
    ("to-hex", "H", 1, "n", r_hex),
    ("from-hex", "H", 1, "n-as-hexstr", r_from_bin_string),
    ("from-hex-uppercase", "H", 1, "n-as-HEXstr", r_from_bin_string),
    ("range-1-inclusive", "ɾ", 1, "n-small", r_range_1_incl),
    ("range-0-inclusive", "ʀ", 1, "n-small", r_range_0_incl),
    ("range-1-exclusive", "ɽ", 1, "n-small", r_range_1_excl),
    ("range-0-exclusive", "ʁ", 1, "n-small", r_range_0_excl),
    ("digits", "f", 1, "n", r_digits),
    ("digit-sum", "∑", 1, "n", r_digit_sum),
    ("digit-reverse", "Ṙ", 1, "n", r_digit_reverse),
    ("digit-groups", "Ġ", 1, "n", r_digit_groups),
    ("digit-prefix-sums", "¦", 1, "n", r_digit_prefix_sums),
    ("digit-split", "÷", 1, "n", r_digit_split),
    ("square", "²", 1, "n", r_square),
    ("double", "d", 1, "n", r_double),
    ("halve", "½", 1, "n", r_halve_even),
    ("sqrt-of-perfect-square", "√", 1, "n-square", r_sqrt_of_square),
    ("inverse:binary", "bB", 1, "n", r_identity),
    ("inverse:hex", "HH", 1, "n", r_identity),
    ("inverse:square-root", "²√", 1, "n", r_identity),
    ("inverse:root-square", "√²", 1, "n-square", r_identity),
    ("inverse:double-halve", "d½", 1, "n", r_identity),
    ("inverse:halve-double", "½d", 1, "n", r_identity),
]
LAW = {row[0]: row for row in LAWS}
MONADIC_ALL_N = [row[0] for row in LAWS if row[3] in ("n", "n-as-bits", "n-as-binstr", "n-as-hexstr", "n-as-HEXstr")]
MONADIC_SMALL = [row[0] for row in LAWS if row[3] == "n-small"]
SQUARE_LAWS = [row[0] for row in LAWS if row[3] == "n-square"]
PAIR_LAWS = [row[0] for row in LAWS if row[3] in ("pair", "pair-list")]

# measured on the unchanged tree, seed 0, quick / thorough: monadic laws 7 093 / 53 704, factorial 4 172 / 41 290,
# each range 4 172 / 14 108, dyads 22 282 / 193 941, perfect-square laws 404 / 626, variants int = sympy
# 150 771 / 1 206 246, literal 26 460 / 109 572, pseudoprimes beyond the exhaustive range 131 / 102.
# Minimum = measured / 5.
MIN_COUNTERS = {
    "variant:int/flag": {"quick": 2000, "thorough": 10000},}
for _name, _prog, _arity, _dom, _rhs in LAWS:
    if _dom == "n-square":
        MIN_COUNTERS[f"law:{_name}"] = {"quick": 80, "thorough": 120}
    elif _dom == "n-small":
        MIN_COUNTERS[f"law:{_name}"] = {"quick": 800, "thorough": 2800}
    elif _dom in ("pair", "pair-list", "pair-binomial"):
        MIN_COUNTERS[f"law:{_name}"] = {"quick": 4400, "thorough": 38000}
    else:
        MIN_COUNTERS[f"law:{_name}"] = {"quick": 1400, "thorough": 10000}
MIN_COUNTERS["variant:int"] = {"quick": 30000, "thorough": 240000}
MIN_COUNTERS["variant:sympy"] = {"quick": 30000, "thorough": 240000}
MIN_COUNTERS["variant:literal"] = {"quick": 5000, "thorough": 20000}
MIN_COUNTERS["pseudoprimes_base2"] = {"quick": 25, "thorough": 20}
MIN_COUNTERS["record_gaps_walked"] = {"quick": 40, "thorough": 40}
MIN_COUNTERS["laws_after_heavy_program"] = {"quick": 1500, "thorough": 1500}

# ---------------------------------------------------------------------------
# workload


def units(tier, seed):
    u = []
    N = N_MAX[tier]
    step = 50
    for lo in range(0, N + 1, step):
        u.append({"kind": "range", "lo": lo, "hi": min(N + 1, lo + step)})
    P = PAIR_MAX[tier]
    pstep = 5 if tier == "quick" else 4
    for lo in range(0, P + 1, pstep):
        u.append({"kind": "pairs", "lo": lo, "hi": min(P + 1, lo + pstep), "max": P})
    lim = 300000
    for lo in range(0, lim, 10000):
        if lo + 10000 > N + 1:
            u.append({"kind": "pseudoprimes", "lo": max(lo, N + 1), "hi": lo + 10000})
    for which in ("carmichael", "powers2", "powers10", "prime-powers", "semiprimes", "near-primes"):
        for part in range(0, len(special_numbers(which)), 12):
            u.append({"kind": "special", "which": which, "from": part, "to": part + 12})
    for k in range(RANDOM_UNITS[tier]):
        u.append({"kind": "rnd", "seed": seed * 100003 + k, "n": RANDOM_PER_UNIT, "nmax": N})
    for fl in ("M", "m", "Ṁ"):
        u.append({"kind": "flagged", "flag": fl, "hi": 40 if tier == "quick" else 200})
    for i in range(len(RECORD_GAPS)):
        u.append({"kind": "gap", "index": i})
    for i in range(len(HEAVY)):
        u.append({"kind": "after-heavy", "index": i})
    return u


def setup_worker():
    pass


class Acc:
    def __init__(self):
        self.res = {"evals": 0, "keys": [], "distinct": 0, "violations": [], "inconclusive": [],
                    "skips": {}, "counters": {}, "samples": []}

    def count(self, name, n=1):
        c = self.res["counters"]
        c[name] = c.get(name, 0) + n

    def admit(self, mechanism):
        """keep at most 3 witnesses per mechanism and 20 per unit; count the rest"""
        self.per_mech = getattr(self, "per_mech", {})
        n = self.per_mech.get(mechanism, 0)
        if n >= 3 or len(self.res["violations"]) >= 20:
            self.count("violations_suppressed")
            return False
        self.per_mech[mechanism] = n + 1
        return True

    def skip(self, reason):
        s = self.res["skips"]
        s[reason] = s.get(reason, 0) + 1


def _short(x, n=160):
    s = json.dumps(x, ensure_ascii=True, default=str) if not isinstance(x, str) else x
    return s if len(s) <= n else s[: n - 20] + f"...({len(s)} chars)"


def has_inexact(c):
    """does a canon()ed value contain a tagged non-exact object?"""
    if isinstance(c, dict):
        return "x" in c
    if isinstance(c, list):
        return any(has_inexact(x) for x in c)
    return False


def stack_args(name, args, variant):
    """the values put on the stack / the literal text for one instance"""
    import sympy

    dom = LAW[name][3]
    n = args[0]
    if dom == "n-as-bits":
        vals = [bits(n)]
    elif dom == "n-as-binstr":
        vals = ["".join(map(str, bits(n)))]
    elif dom == "n-as-hexstr":
        vals = [hexstr(n)]
    elif dom == "n-as-HEXstr":
        vals = [hexstr(n).upper()]
    elif dom == "pair-list":
        vals = [list(args)]
    else:
        vals = list(args)

    def conv(v):
        if variant == "sympy":
            if isinstance(v, int):
                return sympy.Integer(v)
            if isinstance(v, list):
                return [conv(x) for x in v]
        return v

    return [conv(v) for v in vals]


def literal_text(vals):
    out = []
    for v in vals:
        if isinstance(v, int):
            out.append(str(v))
        elif isinstance(v, str):
            out.append("`" + v + "`")
        else:
            out.append("⟨" + "|".join(str(x) for x in v) + "⟩")
    return " ".join(out)


def compare_range(value, lo, hi):
    """stream a lazy/plain list against lo..hi-1; returns None or a description"""
    import sympy

    if isinstance(value, (str, int)) or not hasattr(value, "__iter__"):
        return f"not a list: {type(value).__name__}"
    import itertools

    items = list(itertools.islice(iter(value), max(0, hi - lo) + 1))
    if items == list(range(lo, hi)) and all(type(x) is int for x in items):
        return None         # fast path: exactly the integers lo..hi-1, all Python ints
    value = items
    want = lo
    for x in value:
        if want >= hi:
            return f"more than {hi - lo} items (extra item {x!r})"
        if isinstance(x, bool) or not isinstance(x, (int, sympy.Integer)):
            return f"item {want - lo} has type {type(x).__name__} ({x!r})"
        if int(x) != want:
            return f"item {want - lo} is {int(x)}, expected {want}"
        want += 1
    if want != hi:
        return f"only {want - lo} items, expected {hi - lo}"
    return None


def run_law(acc, name, args, variants=None):
    """one law on one argument tuple: the reference is evaluated once, the implementation once per variant"""
    expect = LAW[name][4](*args)
    if expect[0] == "skip":
        acc.skip(f"{name}: {expect[1]}")
        return
    for v in variants or VARIANTS:
        if v == "literal" and not all(literal_ok(acc, x) for x in args):
            acc.skip("literal variant: the numeric literal does not denote its decimal value (C05's subject)")
            continue
        run_case(acc, name, args, v, expect)


_LITERAL_OK = {}


def literal_ok(acc, n):
    """Does the program text `n` push exactly n?  (Numeric literals are C05's property; an instance whose
    argument is not n says nothing about the element, so it is skipped and counted.)"""
    import sympy
    from lib import env

    if n not in _LITERAL_OK:
        if len(_LITERAL_OK) > 512:
            _LITERAL_OK.clear()
        r = env.run_text(str(n))
        ok = (r.error is None and len(r.stack) == 1 and isinstance(r.stack[-1], (int, sympy.Integer))
              and not isinstance(r.stack[-1], bool) and int(r.stack[-1]) == n)
        _LITERAL_OK[n] = ok
        acc.count("literal_checked")
        if not ok:
            acc.count("literal_wrong")
    return _LITERAL_OK[n]


def run_case(acc, name, args, variant, expect=None):
    from lib import env, values
    from lib.worker import watchdog, Watchdog

    _, prog, arity, dom, rhs = LAW[name]
    if expect is None:
        expect = rhs(*args)
    if expect[0] == "skip":
        acc.skip(f"{name}: {expect[1]}")
        return False
    case = {"kind": "case", "law": name, "args": list(args), "variant": variant}
    # "int/M": the same case under an interpreter flag that changes *implicit* ranges only (M, m, Ṁ):
    # explicit builtins must not notice
    flags = ""
    if "/" in variant:
        variant, flags = variant.split("/", 1)
    vals = stack_args(name, args, "int" if variant == "literal" else variant)
    if variant == "literal":
        text, stack = literal_text(vals) + " " + prog, []
    else:
        text, stack = prog, list(vals)
    observed = None
    err = None
    detail = None
    try:
        with watchdog(CASE_SECONDS):
            r = env.run_text(text, stack=stack, flags=flags)
            if r.error is not None:
                err = f"{r.error[0]}: {type(r.error[1]).__name__}: {r.error[1]}"[:300]
            elif expect[0] == "stack":
                try:
                    observed = [values.canon(v) for v in r.stack]
                except Exception as e:  # noqa
                    err = f"reading the result: {type(e).__name__}: {e}"[:300]
            elif len(r.stack) < 1:
                err = "empty stack"
            elif expect[0] == "range":
                try:
                    detail = compare_range(r.stack[-1], expect[1][0], expect[1][1])
                except Exception as e:  # noqa
                    err = f"reading the result: {type(e).__name__}: {e}"[:300]
            else:
                try:
                    observed = [values.canon(r.stack[-1], 100000)]
                except Exception as e:  # noqa
                    err = f"reading the result: {type(e).__name__}: {e}"[:300]
    except Watchdog:
        acc.res["inconclusive"].append({"why": "watchdog", "unit": case})
        return False
    except (RecursionError, MemoryError) as e:
        acc.res["inconclusive"].append({"why": type(e).__name__, "unit": case})
        return False
    acc.res["evals"] += 1
    acc.count(f"law:{name}")
    acc.count(f"variant:{variant}" + ("/flag" if flags else ""))
    kind = None
    if err is not None:
        kind = "raises"
    elif expect[0] == "range":
        if detail is not None:
            kind = "mismatch"
    elif observed != expect[1]:
        kind = "inexact-type" if has_inexact(observed) else "mismatch"
        if (expect[0] == "ascending" and kind == "mismatch" and isinstance(observed[0], list)
                and all(isinstance(x, int) for x in observed[0]) and sorted(observed[0]) == expect[1][0]):
            kind = "order-not-ascending"      # right multiset of primes, not in the documented ascending order
    if kind is None:
        if len(acc.res["samples"]) < 2 and args[0] > 50:
            acc.res["samples"].append({"law": name, "program": text, "stack": _short(vals), "variant": variant,
                                       "observed": _short(observed if observed is not None else "range ok")})
        return True
    acc.count("violations_seen")
    qual = ""
    if args[0] == 0 or (len(args) > 1 and args[1] == 0):
        qual = ":zero"
    if not acc.admit(f"{name}:{kind}{qual}"):
        return True
    exp_txt = _short(expect[1]) if expect[0] != "range" else f"the integers {expect[1][0]}..{expect[1][1] - 1}"
    obs_txt = err if err is not None else (detail if detail is not None else _short(observed))
    acc.res["violations"].append({
        "mechanism": f"{name}:{kind}{qual}",
        "what": f"law {name}: `{text}` on stack {_short(vals, 80)} ({variant}): expected {exp_txt}, observed {obs_txt}",
        "unit": case,
        "law": name,
        "program": text,
        "expected": _short(expect[1], 1500),
        "observed": _short(obs_txt, 1500),
    })
    return True


VARIANTS = ("int", "sympy", "literal")


STACK_VARIANTS = ("int", "sympy")


RANGE_LAWS = [row[0] for row in LAWS if row[0].startswith("range-")]


def run_n(acc, n, small, literal=True):
    names = list(MONADIC_ALL_N)
    if isqrt_exact(n) is not None:
        names = names + SQUARE_LAWS
    for name in names:
        run_law(acc, name, [n], VARIANTS if literal else STACK_VARIANTS)
    if small:
        run_law(acc, "factorial", [n], VARIANTS if literal else STACK_VARIANTS)
        if n <= RANGES_ALL_MAX:
            for name in RANGE_LAWS:
                run_law(acc, name, [n], VARIANTS if literal else STACK_VARIANTS)
        else:
            run_law(acc, RANGE_LAWS[n % 4], [n], [STACK_VARIANTS[(n // 4) % 2]])


def run_pair(acc, a, b, binom=True, literal=True):
    vs = VARIANTS if literal else STACK_VARIANTS
    for name in PAIR_LAWS:
        run_law(acc, name, [a, b], vs)
    if binom:
        run_law(acc, "binomial", [a, b], vs)
        run_law(acc, "orderless-range", [a, b], vs)


def nontrivial(args):
    return all(x not in (0, 1) for x in args)


def chernick(limit):
    out = []
    k = 1
    while (6 * k + 1) * (12 * k + 1) * (18 * k + 1) < limit:
        a, b, c = 6 * k + 1, 12 * k + 1, 18 * k + 1
        if is_prime(a) and is_prime(b) and is_prime(c):
            out.append(a * b * c)
        k += 1
    return out


def special_numbers(which):
    if which == "carmichael":
        return chernick(BIG)
    if which == "powers2":
        out = []
        for k in range(11, 41):
            out += [2 ** k - 1, 2 ** k, 2 ** k + 1]
        return out
    if which == "powers10":
        out = []
        for k in range(4, 13):
            out += [10 ** k - 1, 10 ** k, 10 ** k + 1]
        return [x for x in out if x <= BIG + 1]
    if which == "prime-powers":
        ps = [p for p in range(45, 400) if is_prime(p)]
        big = [p for p in (997, 1009, 9973, 10007, 99991, 100003, 999983) if is_prime(p)]
        out = [p * p for p in ps] + [p ** 3 for p in ps[:20]] + [p * p for p in big] + [p ** 3 for p in big if p ** 3 <= BIG]
        return out
    if which == "semiprimes":
        big = [p for p in (999983, 999979, 999961, 100003, 99991, 65537, 65521, 10007) if is_prime(p)]
        out = []
        for i, p in enumerate(big):
            for q in big[i:]:
                if p * q <= BIG:
                    out.append(p * q)
        return out
    if which == "near-primes":
        out = []
        for base in (10 ** 6, 10 ** 9, 10 ** 12 - 100, 2 ** 31, 2 ** 32):
            p = next_prime(base)
            out += [p - 1, p, p + 1]
        return out
    raise ValueError(which)


# maximal prime gaps below 10^12 (start prime, gap). Every entry is re-proved with the naive reference
# before it is used; an entry that does not check out is dropped and counted, never trusted.
RECORD_GAPS = [
    (113, 14), (523, 18), (887, 20), (1129, 22), (1327, 34), (9551, 36), (15683, 44), (19609, 52), (31397, 72),
    (155921, 86), (360653, 96), (370261, 112), (492113, 114), (1349533, 118), (1357201, 132), (2010733, 148),
    (4652353, 154), (17051707, 180), (20831323, 210), (47326693, 220), (122164747, 222), (189695659, 234),
    (191912783, 248), (387096133, 250), (436273009, 282), (1294268491, 288), (1453168141, 292),
    (2300942549, 320), (3842610773, 336), (4302407359, 354), (10726904659, 382), (20678048297, 384),
    (22367084959, 394), (25056082087, 456), (42652618343, 464), (127976334671, 468), (182226896239, 474),
    (241160624143, 486), (297501075799, 490), (303371455241, 500), (304599508537, 514), (416608695821, 516),
    (461690510011, 532), (614487453523, 534), (738832927927, 540),
]
# programs whose large arguments make the libraries underneath grow process-wide tables; the laws must
# hold all the same afterwards
HEAVY = ["70000¡_", "100000¡_", "200000 ∆Ṗ_", "300000æ_", "99991 100003*ǐ_", "1000000 ∆ṫ_", "65537 2*K_"]


def gap_checks_out(p, g):
    return is_prime(p) and is_prime(p + g) and not any(is_prime(k) for k in range(p + 1, p + g))


def rnd_n(r):
    x = r.random()
    if x < 0.3:
        return r.randint(20001, 10 ** 6)
    if x < 0.6:
        return r.randint(10 ** 6, 10 ** 9)
    if x < 0.9:
        return r.randint(10 ** 9, BIG)
    # smooth number
    n = 1
    while n < 10 ** 9:
        n *= r.choice([2, 3, 5, 7, 11, 13])
    return n


def run_unit(unit):
    from lib import harness

    acc = Acc()
    res = acc.res
    k = unit["kind"]
    if k == "case":
        run_case(acc, unit["law"], unit["args"], unit["variant"])
        res["distinct"] = 1
        return res
    if k == "range":
        for n in range(unit["lo"], unit["hi"]):
            run_n(acc, n, True, literal=(n < 48 or n % 16 == 0))
            if n > 1:
                res["distinct"] += 1
        return res
    if k == "pairs":
        for a in range(unit["lo"], unit["hi"]):
            for b in range(0, unit["max"] + 1):
                run_pair(acc, a, b, literal=((a < 6 and b < 6) or (a % 8 == 0 and b % 8 == 0)))
                if nontrivial([a, b]):
                    res["distinct"] += 1
        return res
    if k == "pseudoprimes":
        lo, hi = unit["lo"], unit["hi"]
        found = 0
        for n in range(lo | 1, hi, 2):
            if pow(2, n - 1, n) == 1 and not is_prime(n):
                found += 1
                run_n(acc, n, False)
                res["keys"].append(harness.short_hash([n]))
        acc.count("pseudoprimes_base2", found)
        return res
    if k == "special":
        nums = special_numbers(unit["which"])[unit.get("from", 0):unit.get("to", 10 ** 9) + 1]
        for n in nums[:12]:
            run_n(acc, n, False)
            res["keys"].append(harness.short_hash([n]))
        for a, b in zip(nums, nums[1:]):
            run_pair(acc, a, b, binom=False)
            res["keys"].append(harness.short_hash([a, b]))
        acc.count(f"special:{unit['which']}", len(nums[:12]))
        return res
    if k == "gap":
        p, g = RECORD_GAPS[unit["index"]]
        if not gap_checks_out(p, g):
            acc.skip("gap-table-entry-not-confirmed")
            return res
        # every n from just below the gap to its far end: the next prime is the far end for all of them
        for n in range(p - 2, p + g + 2):
            run_law(acc, "next-prime", [n], STACK_VARIANTS[:1] if (n - p) % 8 else STACK_VARIANTS)
            if n in (p, p + g) or (n - p) % 16 == 1:
                run_law(acc, "is-prime", [n], STACK_VARIANTS[:1])
            res["keys"].append(harness.short_hash(["gap", n]))
        acc.count("record_gaps_walked")
        return res
    if k == "after-heavy":
        from lib import env

        heavy = HEAVY[unit["index"]]
        try:
            from lib.worker import watchdog

            with watchdog(120):
                ran = env.run_text(heavy, stack=[])
            if ran.error is not None:
                acc.skip("heavy-program-raised")
        except BaseException as e:  # noqa
            res["inconclusive"].append({"why": f"heavy program {heavy!r}: {type(e).__name__}", "unit": unit})
            return res
        sample = list(range(0, 120)) + list(range(65500, 65600)) + list(range(69990, 70060)) + \
            [99991, 100003, 131071, 131072, 524287, 999983, 1000003]
        for n in sample:
            run_n(acc, n, n < 120, literal=False)
            res["keys"].append(harness.short_hash(["after", heavy, n]))
        acc.count("laws_after_heavy_program", len(sample))
        return res
    if k == "flagged":
        for name, _prog, arity, _dom, _rhs in LAWS:
            for n in range(0, unit["hi"] + 1):
                args = [n] if arity == 1 else [n, (n * 7 + 3) % 23]
                try:
                    run_case(acc, name, args[:max(1, arity)], "int/" + unit["flag"])
                except Exception:  # noqa  (law not defined for this arity pattern)
                    acc.skip("flagged:" + name)
                    break
        res["distinct"] = unit["hi"]
        return res
    if k == "rnd":
        r = random.Random(unit["seed"])
        for _ in range(unit["n"]):
            n = rnd_n(r)
            lit = r.random() < 0.34
            run_n(acc, n, False, literal=lit)
            res["keys"].append(harness.short_hash([n]))
            a, b = rnd_n(r), rnd_n(r)
            if r.random() < 0.5:
                g = r.randint(2, 10 ** 4)
                a, b = a // g * g, b // g * g
            run_pair(acc, a, b, binom=False, literal=lit)
            res["keys"].append(harness.short_hash([a, b]))
            top = r.randint(301, 1500)
            kk = r.choice([0, 1, 2, top // 2, top - 1, top, top + 1, r.randint(0, top)])
            run_law(acc, "binomial", [top, kk], VARIANTS if lit else STACK_VARIANTS)
            res["keys"].append(harness.short_hash(["binomial", top, kk]))
        return res
    raise ValueError(k)


def classify(w):
    m = w.get("mechanism")
    if not m:
        return None
    return "C17-" + m.replace(":", "-")


def finalize(agg, tier):
    laws_seen = sorted(k[4:] for k in agg["counters"] if k.startswith("law:"))
    mechanisms = {}
    for w in agg["violations"]:
        m = w.get("mechanism", "?")
        mechanisms[m] = mechanisms.get(m, 0) + 1
    return {
        "laws": len(LAWS),
        "laws_evaluated": len(laws_seen),
        "mechanisms_reported": dict(sorted(mechanisms.items())),
        "exhaustive": False,
        "exhaustive_part": f"all n in 0..{N_MAX[tier]}; all pairs <= {PAIR_MAX[tier]}",
    }
