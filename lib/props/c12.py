"""C12 — interpreter context is balanced after every construct.

Public probes are spliced between the top-level statements of generated
programs (`n,` must print the top-level context 0; `` `7`Ė `` must land on the
main stack; an implicit read on the emptied stack must continue the program's
input stream) and decided by the structure model. Secondary, model-free
monitors: the depth tuple (context values, input scopes, registered stacks,
active-function stack) when the transpiled program returns equals the tuple
when it started, and equals it at the first line of every top-level statement
(M-LINE: sys.monitoring LINE events set locally on the program's code object)."""
from __future__ import annotations

import random

from lib import harness

ID = "C12"
LEVEL = "exploration"
RULE = (
    "G-struct programs (depth<=4) with break/recurse density raised to every legal position (first/middle/last iteration, "
    "inside if inside loop, inside λ / named function / map-filter-sort lambda), printing of lazy lists, a print matrix (12 kinds of printable "
    "value incl. lazy lists that yield functions x 4 printers x 7 enclosing constructs), with probes "
    "`n,` spliced after top-level statements and an exec probe plus an implicit-read probe at the end; the depth-tuple "
    "monitors also run on programs the reference model skips, provided they terminate normally. "
    "distinct_nontrivial = distinct (program, inputs) containing a structure whose run reached at least one monitor check"
)
ASSUMPTIONS = [
    "depth tuple read from ctx.context_values / inputs / stacks / function_stack (named by the property's anchors; feature-detected)",
    "X / x after a modifier in the same body (known finding C01-break-after-modifier-ignored) is not generated here",
]
MIN_COUNTERS = {
    "exit_depth_checked": {"quick": 1200, "thorough": 12000},
    "boundary_checks": {"quick": 20000, "thorough": 150000},
    "public_compared": {"quick": 800, "thorough": 8000},
    "programs_with_break": {"quick": 500, "thorough": 6000},
    "exhaustive_exit_programs": {"quick": 3000, "thorough": 3000},
    "print_matrix_programs": {"quick": 500, "thorough": 500},
}
UNIT_TIMEOUT = 150


# ---- exhaustive early-exit matrix: every construct x every way of leaving it, nested two deep -------------
def _constructs():
    N = lambda k: ["num", k]  # noqa: E731
    E = lambda k: ["el", k]   # noqa: E731
    return {
        "for": lambda H: [N(3), ["for", None, H]],
        "for-named": lambda H: [N(2), ["for", "a", H]],
        "while": lambda H: [N(2), ["while", [E(":")], [E("‹")] + H], E("_")],
        "while-nocond": lambda H: [["while", None, H + [["brk"]]]],
        "lam0": lambda H: [N(5), ["lam", 0, H], E("†")],
        "lam1": lambda H: [N(5), ["lam", 1, H], E("†")],
        "lam2": lambda H: [N(5), N(6), ["lam", 2, H], E("†")],
        "lam-default": lambda H: [N(5), ["lam", None, H], E("†")],
        "map": lambda H: [N(3), ["map", H], E(",")],
        "filter": lambda H: [N(3), ["filter", H], E(",")],
        "sort": lambda H: [["list", [[N(3)], [N(1)], [N(2)]]], ["sort", H], E(",")],
        "def0": lambda H: [["def", "f", [], H], ["call", "f"]],
        "def1": lambda H: [["def", "g", [1], H], N(4), ["call", "g"]],
        "def-named-param": lambda H: [["def", "f", ["p"], H], N(4), ["call", "f"]],
        "cond-call": lambda H: [N(1), ["mod", "ß", [["lam", 1, H]]]],
    }


def _exits():
    N = lambda k: ["num", k]  # noqa: E731
    E = lambda k: ["el", k]   # noqa: E731
    return {
        "normal": [N(7)],
        "X-first": [["brk"], N(7)],
        "X-middle": [N(7), ["brk"], N(8)],
        "X-last": [N(7), ["brk"]],
        "X-in-if-taken": [N(1), ["if", [[["brk"]]]], N(8)],
        "X-in-if-not-taken": [N(0), ["if", [[["brk"]]]], N(8)],
        "X-in-else": [N(0), ["if", [[N(2)], [["brk"]]]], N(8)],
        "X-after-n": [E("n"), ["brk"]],
        "x": [["rec"], N(7)],
        "x-in-if": [E("n"), ["if", [[["rec"]]]], N(8)],
    }


LOOPS = ("for", "for-named", "while", "while-nocond")


def _legal(cname, ename):
    if ename.startswith("x"):
        return cname in ("for", "for-named")      # x in while / lambda: not determined by the documents
    return True


def exh_programs(outer):
    C, X = _constructs(), _exits()
    probe = [["el", "n"], ["el", ","]]
    tail = [["probe_exec"], ["el", "n"], ["el", ","]]
    out = []
    for en, eb in X.items():
        if _legal(outer, en):
            out.append((f"{outer}/{en}", C[outer](eb) + probe + tail))
    for inner in C:
        if inner in ("for-named", "def0", "def1", "def-named-param") and outer not in ():
            # named loop variables and definitions are only determined at top level
            continue
        for en, eb in X.items():
            if not _legal(inner, en):
                continue
            for on, ob in (("normal", []), ("then-X", [["brk"]]), ("then-X-in-if", [["num", 1], ["if", [[["brk"]]]]])):
                if inner == "cond-call" and (on != "normal" or outer == "while-nocond"):
                    # an X after a modifier in the same body is ignored (known finding of C01): not generated here
                    continue
                body = C[inner](eb) + ob
                out.append((f"{outer}>{inner}/{en}/{on}", C[outer](body) + probe + tail))
    return out


def print_programs():
    """Every kind of printable value (plain, lazy, nested lazy, holding or lazily yielding functions) x every
    printer x the construct it is printed in; probes follow."""
    N = lambda k: ["num", k]  # noqa: E731
    E = lambda k: ["el", k]   # noqa: E731
    values = {
        "lazy-map": [N(3), ["map", [E("d")]]],
        "lazy-map-yielding-functions": [N(3), ["map", [["lam", None, [N(5)]]]]],
        "lazy-map-yielding-some-functions": [N(3), ["map", [N(2), E(">"), ["if", [[["lam", None, [N(7)]]], [E("n")]]]]]],
        "lazy-map-function-reading-context": [N(2), ["map", [["lam", 0, [E("n")]]]]],
        "lazy-map-partly-read": [N(3), ["map", [["lam", None, [N(5)]]]], E(":"), E("h"), E("_")],
        "lazy-nested": [N(3), ["map", [E("n"), ["map", [E("›")]]]]],
        "lazy-filter": [N(4), ["filter", [N(2), E("%")]]],
        "eager-list-with-function": [["list", [[["lam", None, [N(5)]]], [N(2)]]]],
        "function": [["lam", None, [N(5)]]],
        "function-with-arity": [N(4), ["lam", 1, [E("d")]]],
        "vectorised": [["list", [[N(1)], [N(2)]]], ["mod", "v", [E("›")]]],
        "number": [N(9)],
    }
    printers = {"print": [E(",")], "print-no-newline": [E("₴")], "print-keep": [E("…"), E("_")],
                "print-twice": [E(":"), E(","), E(",")]}
    contexts = {
        "top": lambda B: B,
        "for": lambda B: [N(2), ["for", None, B]],
        "for-then-break": lambda B: [N(2), ["for", None, B + [["brk"]]]],
        "lam": lambda B: [["lam", 0, B], E("†")],
        "map": lambda B: [N(2), ["map", B + [N(1)]], E(",")],
        "def": lambda B: [["def", "f", [], B], ["call", "f"]],
        "if-in-while": lambda B: [N(2), ["while", [E(":")], [E("‹"), N(1), ["if", [B]]]], E("_")],
    }
    probe = [E("n"), E(",")]
    tail = [["probe_exec"], E("n"), E(",")]
    out = []
    for vn, v in values.items():
        for pn, pr in printers.items():
            for cn, cx in contexts.items():
                if cn == "for-then-break" and any(n[0] == "mod" for n in v):
                    continue  # X after a modifier in the same body: known finding of C01, not generated here
                out.append((f"{cn}/{vn}/{pn}", cx(v + pr) + probe + tail))
    return out


def units(tier, seed):
    n_units = 120 if tier == "quick" else 500
    u = [{"kind": "random", "seed": seed, "idx": i, "n": 60 if tier == "quick" else 100} for i in range(n_units)]
    for outer in _constructs():
        u.append({"kind": "exh", "outer": outer})
    for part in range(4):
        u.append({"kind": "prints", "part": part, "of": 4})
    return u


def setup_worker():
    from lib import structrun

    structrun.install()


LAZY_PRINTS = [
    [["num", 3], ["map", [["el", "d"]]], ["el", ","]],
    [["num", 4], ["map", []], ["el", "…"], ["el", "_"]],
    [["num", 2], ["filter", [["num", 1]]], ["el", "₴"]],
    [["num", 3], ["map", [["el", "n"], ["map", [["el", "›"]]]]], ["el", ","]],
    [["num", 3], ["map", [["brk"], ["num", 5]]], ["el", ","]],
    [["list", [[["num", 1]], [["num", 2]]]], ["mod", "v", [["el", "›"]]], ["el", ","]],
]


def gen_case(rnd):
    from lib.gen import struct as G

    cfg = G.Cfg(p_break=0.30, p_struct=0.45, p_print=0.05, p_input=0.05)
    prog = G.gen_program(rnd, cfg)
    out = []
    for node in prog:
        out.append(node)
        x = rnd.random()
        if x < 0.45:
            out += [["el", "n"], ["el", ","]]
        elif x < 0.55:
            out += rnd.choice(LAZY_PRINTS)
    tail = rnd.random()
    if tail < 0.4:
        out += [["probe_exec"], ["el", "n"], ["el", ","]]
    elif tail < 0.7:
        out += [["el", "W"], ["el", "_"], ["el", ":"], ["el", ","], ["el", "_"], ["el", "n"]]
    else:
        out += [["el", "n"]]
    k = rnd.choice([0, 1, 2, 3])
    inputs = [rnd.randint(1, 9) if rnd.random() < 0.8 else [rnd.randint(0, 5) for _ in range(rnd.randint(1, 3))] for _ in range(k)]
    return out, inputs


def has_break(body):
    from lib.props.c01 import features

    f = features(body, set())
    return any(t.startswith(("brk-in", "rec-in")) for t in f)


def check_case(prog, inputs, res):
    from lib import structrun
    from lib.gen import struct as G
    from lib.models.structure import Model, Skip
    from vyxal.lexer import tokenise

    c = res["counters"]
    text, toks = G.serialise(prog)
    if not G.check_tokens(text, toks, tokenise):
        c["generator_token_mismatch"] = c.get("generator_token_mismatch", 0) + 1
        return
    m = Model(inputs=inputs, flags="")
    skipped = None
    try:
        m.run_program(prog)
    except Skip as s:
        skipped = s.reason
        res["skips"][s.reason] = res["skips"].get(s.reason, 0) + 1
        if s.reason in ("fuel", "recursion-depth") or s.reason.startswith("size"):
            return
    except RecursionError:
        return
    got = structrun.run_impl(text, [repr(x) for x in inputs], "", timeout=4 if skipped else 10, line_monitor=True)
    if got["error"] in ("watchdog", "MemoryError", "RecursionError"):
        if not skipped:
            res["inconclusive"].append({"why": got["error"], "program": text, "inputs": inputs})
        return
    if got["probe_calls"] == 0 or got["depth_before"] is None:
        if not skipped and not got["error"]:
            res["inconclusive"].append({"why": "exec probe saw nothing", "program": text})
        return
    unit = {"kind": "one", "prog": prog, "inputs": inputs}

    def violation(mech, what, **kw):
        if len(res["violations"]) < 20:
            w = {"mechanism": mech, "what": f"program {text!r} inputs={inputs}: {what}"[:700], "unit": unit,
                 "program": text, "python": (got.get("code") or "")[:3000]}
            w.update(kw)
            res["violations"].append(w)
        else:
            c["violations_not_listed"] = c.get("violations_not_listed", 0) + 1

    counted = False
    brk = has_break(prog)
    # --- model-free monitors: only normally terminated programs make a claim
    if not got["error"] and not got["exec_raised"] and got.get("unwinds"):
        # an exception skipped a lambda/function epilogue and was swallowed further up (e.g. a TypeError
        # inside LazyList.__len__ called by list() as a length hint): not a normally finishing program
        res["skips"]["function-frame-left-by-swallowed-exception"] = \
            res["skips"].get("function-frame-left-by-swallowed-exception", 0) + 1
        return
    if not got["error"] and not got["exec_raised"]:
        res["evals"] += 1
        counted = True
        c["exit_depth_checked"] = c.get("exit_depth_checked", 0) + 1
        c["boundary_checks"] = c.get("boundary_checks", 0) + got["line_checks"]
        if brk:
            c["programs_with_break"] = c.get("programs_with_break", 0) + 1
        if G.has_structure(prog):
            res["keys"].append(harness.short_hash([text, inputs]))
        if got["line_first_bad"]:
            b = got["line_first_bad"]
            violation("depth:boundary", f"depth tuple {b['depths']} != initial {b['initial']} before top-level "
                                        f"Python line {b['python_line']}: {b['line_text']!r}", leak=leak_kind(b["initial"], b["depths"]))
            return
        if got["depth_after"] != got["depth_before"]:
            violation("depth:exit", f"depth tuple at exit {got['depth_after']} != at start {got['depth_before']}",
                      leak=leak_kind(got["depth_before"], got["depth_after"]))
            return
    # --- public probes, decided by the model
    if skipped:
        return
    if not counted:
        res["evals"] += 1
    c["public_compared"] = c.get("public_compared", 0) + 1
    expect_out = "".join(m.out)
    if got["error"]:
        violation("public:raised", f"implementation raised {got['error']}")
    elif isinstance(got["final_stack"], dict):
        res["inconclusive"].append({"why": "final stack " + str(got["final_stack"]), "program": text})
    elif got["final_stack"] != m.final_stack or got["stdout"] != expect_out:
        violation("public:probe", f"final stack {got['final_stack']!r} stdout {got['stdout']!r} != model "
                                  f"{m.final_stack!r} {expect_out!r}")
    if len(res["samples"]) < 3 and brk:
        res["samples"].append({"program": text, "inputs": inputs, "depth_start": got["depth_before"],
                               "depth_exit": got["depth_after"], "boundary_checks": got["line_checks"],
                               "stdout": got["stdout"][:60]})


def leak_kind(a, b):
    names = ["context_values", "inputs", "stacks", "function_stack"]
    return [n for n, x, y in zip(names, a, b) if x != y]


def run_unit(unit):
    res = {"evals": 0, "keys": [], "violations": [], "inconclusive": [], "skips": {}, "counters": {}, "samples": []}
    if unit["kind"] == "one":
        check_case(unit["prog"], unit["inputs"], res)
        return res
    if unit["kind"] == "exh":
        progs = exh_programs(unit["outer"])
        for _name, prog in progs:
            for inputs in ([], [6, [1, 2]]):
                check_case(prog, inputs, res)
        res["counters"]["exhaustive_exit_programs"] = len(progs) * 2
        return res
    if unit["kind"] == "prints":
        progs = print_programs()[unit.get("part", 0)::unit.get("of", 1)]
        for _name, prog in progs:
            for inputs in ([], [6, [1, 2]]):
                check_case(prog, inputs, res)
        res["counters"]["print_matrix_programs"] = len(progs) * 2
        return res
    rnd = random.Random(f"C12/{unit['seed']}/{unit['idx']}")
    for j in range(unit["n"]):
        prog, inputs = gen_case(rnd)
        if "only" in unit and unit["only"] != j:
            continue
        check_case(prog, inputs, res)
    return res


def split_unit(unit):
    if unit.get("kind") == "random" and "only" not in unit:
        return [dict(unit, only=j) for j in range(unit["n"])]
    return None


def classify(w):
    return None
