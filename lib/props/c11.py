"""C11 — input is a cyclic stream shared by explicit and implicit reads.

Inputs are unique (101, 102, … and tagged lists) so every delivered value
identifies the input it came from. Three oracles per program:
  1. (public, deciding) final stack and stdout equal the structure model's;
  2. (direct encoding of the statement, no model) the k-th read delivered at top
     level — explicit or implicit — is input k mod n (0 when there are none), and
     every explicit read, wherever it happens, continues that same stream;
  3. (secondary) the sequence of read events recorded by a wrapper around the
     repository's input function equals the model's event sequence
     (kind, scope depth, value) — only for programs without lazily evaluated bodies.
"""
from __future__ import annotations

import itertools
import random

from lib import harness

ID = "C11"
LEVEL = "exploration"
RULE = (
    "read histories over {? (explicit), _ + ∇ $ (implicit pops of arity 1-3), ~+ ~∇ ~λ (arguments kept, missing ones read), literals, W, print} at top level and inside "
    "λ (arity 0-3, called with † and ß), named functions (numeric and named parameters), nested two deep, plus map lambdas; "
    "all input lists of length 0..4 of unique values; exhaustive over a 12-symbol alphabet up to length 4 (quick) / 5 (thorough) "
    "and random histories up to length 12; distinct_nontrivial = distinct (program, inputs) whose run delivered at least one read"
)
ASSUMPTIONS = [
    "read events are observed by rebinding get_input in the vyxal modules (secondary monitor; feature-detected)",
    "inside lazily evaluated bodies only the public oracle is compared (event order is unobservable there)",
]
MIN_COUNTERS = {
    "reads_observed": {"quick": 50000, "thorough": 500000},
    "toplevel_stream_checked": {"quick": 30000, "thorough": 300000},
    "trace_compared": {"quick": 8000, "thorough": 80000},
    "map_with_reads_cases": {"quick": 80, "thorough": 80},
}
UNIT_TIMEOUT = 150

ALPHABET = [
    [["el", "?"]],
    [["el", "_"]],
    [["el", "+"]],
    [["el", "∇"]],
    [["num", 7]],
    [["lam", 0, [["el", "?"], ["el", "+"]]], ["el", "†"]],
    [["lam", 1, [["el", "_"], ["el", "+"], ["el", "?"], ["el", "+"]]], ["el", "†"]],
    [["lam", 2, [["el", "∇"], ["el", "+"], ["el", "+"]]], ["el", "†"]],
    [["call", "f"]],
    [["lam", 1, [["num", 9], ["brk"], ["el", "?"]]], ["el", "†"]],
    # apply-without-popping on a stack that may be too short: one implicit read per missing argument
    [["mod", "~", [["el", "+"]]]],
    [["mod", "~", [["el", "∇"]]]],
]
PRELUDE = [["def", "f", [2], [["el", "_"], ["el", "_"], ["el", "+"], ["el", "?"]]]]


def input_lists():
    out = []
    for n in range(0, 5):
        vals = [101 + i for i in range(n)]
        out.append(vals)
    out.append([[201, 202], 103])
    out.append([104, [203], [204, 205, 206]])
    return out


def units(tier, seed):
    u = []
    maxlen = 4 if tier == "quick" else 5
    # exhaustive part: split by first two symbols
    for L in range(1, maxlen + 1):
        if L <= 2:
            u.append({"kind": "exh", "len": L, "prefix": []})
        else:
            for a in range(len(ALPHABET)):
                for b in range(len(ALPHABET)):
                    u.append({"kind": "exh", "len": L, "prefix": [a, b]})
    u.append({"kind": "maplast"})
    n_rand = 64 if tier == "quick" else 640
    per = 60 if tier == "quick" else 100
    for i in range(n_rand):
        u.append({"kind": "rand", "seed": seed, "idx": i, "n": per})
    return u


def setup_worker():
    from lib import structrun

    structrun.install()


# ---- random read-history generator ------------------------------------------
def rnd_ops(r, depth, lazy=False, in_fn=False):
    n = r.randint(1, 6 if depth == 0 else 4)
    out = []
    for _ in range(n):
        x = r.random()
        if x < 0.22 and not lazy:
            out.append(["el", "?"])
        elif x < 0.55:
            out.append(["el", r.choice(["_", "+", "∇", "$", "+", "_"])])
        elif x < 0.60 and in_fn and not lazy and not any(n[0] == "mod" for n in out):
            # early return: the call's input scope must be dropped (never after a modifier in the
            # same body: that is the known finding C01-break-after-modifier-ignored)
            out.append(["brk"])
        elif x < 0.65:
            out.append(["num", r.randint(1, 9)])
        elif x < 0.70 and not lazy:
            out.append(["el", r.choice([",", "W"])])
        elif x < 0.9 and depth < 2:
            k = r.random()
            if k < 0.55:
                ar = r.choice([0, 1, 2, 3, None])
                out.append(["lam", ar, rnd_ops(r, depth + 1, lazy, True)])
                out.append(["el", "†"])
            elif k < 0.63 and not lazy:
                out.append(["num", 1])
                out.append(["mod", "ß", [["lam", r.choice([0, 1, 2]), rnd_ops(r, depth + 1, lazy, True)]]])
            elif k < 0.7 and not lazy:
                # ~ keeps its operand's arguments: on a short stack every missing one is an implicit read
                if r.random() < 0.6:
                    out.append(["mod", "~", [["el", r.choice(["+", "∇", "$"])]]])
                else:
                    out.append(["mod", "~", [["lam", r.choice([2, 3]), rnd_ops(r, depth + 1, lazy, True)]]])
            elif k < 0.85 and not lazy:
                out.append(["call", r.choice(["f", "g"])])
            else:
                # map lambda over a small literal list: evaluated lazily -> public oracle only
                out.append(["list", [[["num", 3]], [["num", 4]]]])
                out.append(["map", rnd_ops(r, depth + 1, True, True)])
        else:
            out.append(["el", "+"])
    return out


def rnd_program(r):
    defs = []
    for name in ("f", "g"):
        params = r.choice([[], [1], [2], [3], [1, 1], ["p"], [1, "p"]])
        body = rnd_ops(r, 1, False, True)
        if "p" in params and r.random() < 0.7:
            body.append(["vget", "p"])
        defs.append(["def", name, params, body])
    return defs + rnd_ops(r, 0)


def has_lazy(body):
    for node in body:
        k = node[0]
        if k in ("map", "filter"):
            return True
        if k == "lam" and has_lazy(node[2]):
            return True
        if k == "def" and has_lazy(node[3]):
            return True
        if k == "mod" and has_lazy(node[2]):
            return True
    return False


# ---- checking ---------------------------------------------------------------
def flat(v):
    return v


def check_case(prog, inputs, res, label):
    from lib import structrun
    from lib.gen import struct as G
    from lib.models.structure import Model, Skip
    from vyxal.lexer import tokenise

    c = res["counters"]
    text, toks = G.serialise(prog)
    if not G.check_tokens(text, toks, tokenise):
        c["generator_token_mismatch"] = c.get("generator_token_mismatch", 0) + 1
        return
    m = Model(inputs=inputs, flags="")
    m.eager_ok = label == "maplast"
    try:
        m.run_program(prog)
    except Skip as s:
        res["skips"][s.reason] = res["skips"].get(s.reason, 0) + 1
        return
    got = structrun.run_impl(text, [repr(x) for x in inputs], "")
    if got["error"] in ("watchdog", "MemoryError") or isinstance(got["final_stack"], dict):
        res["inconclusive"].append({"why": str(got["error"] or got["final_stack"]), "program": text, "inputs": inputs})
        return
    if got["probe_calls"] == 0:
        res["inconclusive"].append({"why": "exec probe saw nothing", "program": text})
        return
    res["evals"] += 1
    reads = got["reads"] or []
    c["reads_observed"] = c.get("reads_observed", 0) + len(reads)
    if reads or m.reads:
        res["keys"].append(harness.short_hash([text, inputs]))
    unit = {"kind": "one", "prog": prog, "inputs": inputs, "label": label}

    def violation(mech, what):
        if len(res["violations"]) < 20:
            res["violations"].append({"mechanism": mech, "what": f"program {text!r} inputs={inputs}: {what}"[:700],
                                      "unit": unit, "program": text, "impl_reads": reads[:40],
                                      "model_reads": [list(x) for x in m.reads[:40]]})
        else:
            c["violations_not_listed"] = c.get("violations_not_listed", 0) + 1

    # 1. public oracle
    expect_out = "".join(m.out)
    if got["error"]:
        violation("public:raised", f"implementation raised {got['error']}")
        return
    if got["final_stack"] != m.final_stack or got["stdout"] != expect_out:
        violation("public:values", f"final stack {got['final_stack']!r} stdout {got['stdout']!r} != model "
                                   f"{m.final_stack!r} {expect_out!r}")
        return
    c["public_compared"] = c.get("public_compared", 0) + 1

    # 2. direct statement check on the recorded events (needs the secondary monitor)
    if reads or not m.reads:
        k = 0
        ok = True
        for kind, depth, value in reads:
            if kind == "explicit" or depth == 0:
                want = inputs[k % len(inputs)] if inputs else 0
                k += 1
                c["toplevel_stream_checked"] = c.get("toplevel_stream_checked", 0) + 1
                if value != want:
                    violation("stream:toplevel", f"top-level/explicit read #{k} delivered {value!r}, expected input {want!r}")
                    ok = False
                    break
        if not ok:
            return
    else:
        c["read_monitor_silent"] = c.get("read_monitor_silent", 0) + 1

    # 3. event trace vs model (eager programs only)
    if not has_lazy(prog) and (reads or not m.reads):
        c["trace_compared"] = c.get("trace_compared", 0) + 1
        want = [[a, b, v] for a, b, v in m.reads]
        gotr = [[a, b, v] for a, b, v in reads]
        if len(want) != len(gotr):
            violation("trace:length", f"{len(gotr)} read events, model has {len(want)}")
            return
        def same(a, b):
            # the monitor never iterates a lazy list: {"x": "lazy"} stands for any list
            if a == {"x": "lazy"} or a == {"x": "list"}:
                return isinstance(b, list)
            if isinstance(a, list) and isinstance(b, list):
                return len(a) == len(b) and all(same(x, y) for x, y in zip(a, b))
            return a == b

        for i, (w, g) in enumerate(zip(want, gotr)):
            if w[:2] != g[:2] or not same(g[2], w[2]):
                violation("trace:event", f"read event #{i + 1} is {g!r}, model says {w!r}")
                return
    if len(res["samples"]) < 3 and reads:
        res["samples"].append({"program": text, "inputs": inputs, "reads": reads[:12], "final_stack": got["final_stack"]})


def run_unit(unit):
    res = {"evals": 0, "keys": [], "violations": [], "inconclusive": [], "skips": {}, "counters": {}, "samples": []}
    k = unit["kind"]
    if k == "one":
        check_case(unit["prog"], unit["inputs"], res, unit.get("label", "replay"))
    elif k == "exh":
        L = unit["len"]
        pre = unit["prefix"]
        for tail in itertools.product(range(len(ALPHABET)), repeat=L - len(pre)):
            idx = list(pre) + list(tail)
            prog = list(PRELUDE)
            for i in idx:
                prog = prog + ALPHABET[i]
            for inputs in input_lists():
                check_case(prog, inputs, res, "exh")
        res["counters"]["exhaustive_histories"] = res["counters"].get("exhaustive_histories", 0) + len(ALPHABET) ** (L - len(pre))
    elif k == "maplast":
        # explicit reads inside a map body, over lists with repeated items; the map is the last thing in the
        # program (nothing reads after it is built), so evaluating it when it is printed and evaluating it at once
        # deliver the same reads in the same order: one per item, equal items included
        lists = [[7, 7, 7], [7, 8, 7], [3, 3], [5], [2, 2, 2, 2, 9, 2]]
        bodies = [[["el", "?"], ["el", "+"]], [["el", "?"]], [["el", "_"], ["el", "?"], ["el", "?"], ["el", "+"]]]
        pres = [[], [["el", "?"]], [["el", "_"]], [["el", "?"], ["el", "+"]]]
        for lst in lists:
            for body in bodies:
                for pre in pres:
                    prog = list(pre) + [["list", [[["num", v]] for v in lst]], ["map", body]]
                    for inputs in input_lists():
                        check_case(prog, inputs, res, "maplast")
                        res["counters"]["map_with_reads_cases"] = res["counters"].get("map_with_reads_cases", 0) + 1
    else:
        r = random.Random(f"C11/{unit['seed']}/{unit['idx']}")
        ins = input_lists()
        for _ in range(unit["n"]):
            prog = rnd_program(r)
            check_case(prog, r.choice(ins), res, "rand")
    return res


def classify(w):
    return None


def finalize(agg, tier):
    return {"exhaustive_part": "all histories over the 12-symbol alphabet up to length %d x 7 input lists" % (4 if tier == "quick" else 5)}
