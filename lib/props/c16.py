"""C16 — list builtins obey their defining laws.

Every law is a row of LAWS = (name, program text, arity, domain, rhs).  The
left-hand side is an execution of the real interpreter on the program text
(`env.run_text(key, stack=[args...])`: lexer, parser, transpiler, element
table and element function are all inside the loop); the right-hand side is
written with itertools / builtins / naive loops only and never touches repo
code.  Every instance is run with the list arguments as plain lists and as
`LazyList`s (nested domains a third time with every inner list lazy too;
integer / rational lists a third time with sympy Integers as items, which is
what number literals build).

Orders: a result is compared *in order* only where elements.yaml fixes the
order (description or the pattern of its examples); otherwise as a multiset
with multiplicity (see `_ms`)."""
from __future__ import annotations

import itertools
import json
import random
from fractions import Fraction

ID = "C16"
LEVEL = "exploration"
DESIGN_REF = "DESIGN.md §1 C16"
ALPHA = [-2, -1, 0, 1, 2, 3]
ABSENT = 7
EX_LEN = {"quick": 4, "thorough": 5}          # exhaustive flat int lists
EX_PAIR_LEN = {"quick": 2, "thorough": 3}     # exhaustive pairs of lists
EX_ROWS_LEN = {"quick": 3, "thorough": 4}     # exhaustive ragged matrices (total cells)
RANDOM_UNITS = {"quick": 64, "thorough": 640}
RANDOM_PER_UNIT = 36
CAP_PERM, CAP_POWER, CAP_SUBL = 6, 10, 12     # enumeration laws: longest list they are run on
RULE = (
    "law instance = (law, argument tuple, plain|lazy|deep-lazy|sym); exhaustive part: every integer list of "
    "length <= 4 (quick) / <= 5 (thorough) over -2..3 through every law whose domain contains integer "
    "lists (item laws with every item of -2..3 and one absent item, chunk/window laws with every size "
    "1..len+1), every pair of such lists of length <= 2 / <= 3 through the dyadic laws, every ragged "
    "matrix obtained by cutting such a list of length <= 3 / <= 4 into rows (plus one empty row) through "
    "the matrix laws; random part: integer, rational, string-item, nested, mixed and ragged lists and "
    "strings to length 12 (permutations <= 6, powerset <= 10 items; strings over letters, blank, tab, line feed and "
    "regex metacharacters); composed laws `P Q` (P in sort, reverse, uniquify, cumulative sums, deltas; Q any "
    "monadic / item / size law) on flat numeric lists (exhaustive to length 3, and the random ones): Q's definition "
    "applied to P's definition, so whatever P hands on (lazy, flagged, shared) is held to Q's law. distinct_nontrivial counts distinct "
    "argument tuples whose list has length >= 2 (exhaustive units are disjoint by construction and are "
    "counted; random tuples outside the exhaustive space are hashed)."
)
ASSUMPTIONS = [
    "right-hand sides are itertools/builtins/naive loops over plain Python values (fractions.Fraction for rationals)",
    "results are compared after canon_loose (C16 does not speak about number types; C07/C17 do)",
    "order is compared only where elements.yaml fixes it; otherwise multisets with multiplicity",
    "list items that are strings never look like numbers (Vyxal's str/num equality is not a list law)",
    "enumeration laws are capped: permutations on lists of <= 6 items, powerset <= 10, sublists <= 12",
]
UNIT_TIMEOUT = 900
CASE_SECONDS = 30

# ---------------------------------------------------------------------------
# plain-Python view of specs


def py(spec):
    """spec -> plain Python value (Fraction for rationals, lists for lazy lists)."""
    if isinstance(spec, dict):
        if "q" in spec:
            return Fraction(spec["q"][0], spec["q"][1])
        if "lazy" in spec:
            return [py(x) for x in spec["lazy"]]
        raise ValueError(spec)
    if isinstance(spec, list):
        return [py(x) for x in spec]
    return spec


def cj(v):
    """plain Python value -> the canonical JSON form lib.values.canon produces."""
    if isinstance(v, bool):
        return int(v)
    if isinstance(v, int):
        return v
    if isinstance(v, Fraction):
        if v.denominator == 1:
            return int(v.numerator)
        return {"q": [int(v.numerator), int(v.denominator)]}
    if isinstance(v, str):
        return v
    if isinstance(v, (list, tuple)):
        return [cj(x) for x in v]
    raise TypeError(type(v))


def _key(x):
    return json.dumps(x, sort_keys=True, ensure_ascii=True)


def _ms(items):
    return sorted((_key(x) for x in items))


def EQ(*stack_values):
    """expected top-of-stack values, bottom to top, exact and ordered"""
    return ("eq", [cj(v) for v in stack_values])


def MS(items):
    """expected top of stack: a list equal to `items` as a multiset"""
    return ("ms", cj(items))


def SKIP(reason):
    return ("skip", reason)


# ---------------------------------------------------------------------------
# right-hand sides (never repo code)


def _first_occurrences(a):
    out = []
    for x in a:
        if x not in out:
            out.append(x)
    return out


def r_sort(a):
    if isinstance(a, str):
        return EQ("".join(sorted(a)))
    return EQ(sorted(a))


def r_reverse(a):
    return EQ(a[::-1])


def r_identity(a):
    return EQ(a)


def r_bifurcate(a):
    return EQ(a, a[::-1])


def r_uniquify(a):
    u = _first_occurrences(a)
    return EQ("".join(u) if isinstance(a, str) else u)


def r_uniquify_mask(a):
    seen, out = [], []
    for x in a:
        out.append(0 if x in seen else 1)
        if x not in seen:
            seen.append(x)
    return EQ(out)


def _leaves(a):
    out = []
    for x in a:
        if isinstance(x, list):
            out.extend(_leaves(x))
        else:
            out.append(x)
    return out


def r_flatten(a):
    return EQ(list(a) if isinstance(a, str) else _leaves(a))


def r_sum(a):
    if a and all(isinstance(x, str) for x in a):
        return EQ("".join(a))
    if any(isinstance(x, str) for x in a):
        return SKIP("sum of mixed strings and numbers")
    total = 0
    for x in a:
        total = total + x
    return EQ(total)


def r_product(a):
    total = 1
    for x in a:
        total = total * x
    return EQ(total)


def r_max(a):
    if len(a) == 0:
        return SKIP("max/min of an empty list is undefined")
    return EQ(max(a))


def r_min(a):
    if len(a) == 0:
        return SKIP("max/min of an empty list is undefined")
    return EQ(min(a))


def r_cumsum(a):
    return EQ(list(itertools.accumulate(a, lambda x, y: x + y)))


def r_deltas(a):
    return EQ([y - x for x, y in zip(a, a[1:])])


def r_zip(a, b):
    return EQ([[x, y] for x, y in itertools.zip_longest(a, b, fillvalue=0)])


def r_zip_self(a):
    return EQ([[x, x] for x in a])


def r_transpose(rows):
    width = max([len(r) for r in rows], default=0)
    return EQ([[r[j] for r in rows if j < len(r)] for j in range(width)])


def r_transpose_fill(rows, fill):
    return EQ([list(c) for c in itertools.zip_longest(*rows, fillvalue=fill)])


def _roundrobin(a, b):
    out = []
    for x, y in itertools.zip_longest(a, b, fillvalue=_roundrobin):
        if x is not _roundrobin:
            out.append(x)
        if y is not _roundrobin:
            out.append(y)
    return out


def r_interleave(a, b):
    out = _roundrobin(a, b)
    if isinstance(a, str) and isinstance(b, str):
        return EQ("".join(out))
    return EQ(out)


def r_uninterleave(a):
    return EQ(a[::2], a[1::2])


def r_chunks(a, n):
    return EQ([a[i:i + n] for i in range(0, len(a), n)])


def r_windows(a, n):
    return EQ([a[i:i + n] for i in range(0, len(a) - n + 1)])


def r_prefixes(a):
    return EQ([a[:i + 1] for i in range(len(a))])


def r_sublists(a):
    if len(a) > CAP_SUBL:
        return SKIP("cap")
    subs = [a[i:j] for j in range(1, len(a) + 1) for i in range(0, j)]
    # elements.yaml: [1,2,3] -> [[1],[1,2],[2],[1,2,3],[2,3],[3]]  (pattern fixed up to 3 items)
    return EQ(subs) if len(a) <= 3 else MS(subs)


def r_powerset(a):
    if len(a) > CAP_POWER:
        return SKIP("cap")
    n = len(a)
    subs = [[a[i] for i in range(n) if mask >> i & 1] for mask in range(1 << n)]
    # elements.yaml: [1,2,3] -> [[],[1],[2],[1,2],[3],[1,3],[2,3],[1,2,3]]  (binary counting, fixed up to 3 items)
    return EQ(subs) if n <= 3 else MS(subs)


def r_permutations(a):
    if len(a) > CAP_PERM:
        return SKIP("cap")
    perms = [list(p) for p in itertools.permutations(list(a))]
    if isinstance(a, str):
        perms = ["".join(p) for p in perms]
    # elements.yaml: "abc" -> abc acb bac bca cab cba  (positional lexicographic, fixed up to 3 items)
    return EQ(perms) if len(a) <= 3 else MS(perms)


def r_cartesian(a, b):
    if isinstance(a, str) and isinstance(b, str):
        prod = [x + y for x in a for y in b]
    else:
        prod = [[x, y] for x in a for y in b]
    # elements.yaml: [1,2] x [3,4] -> [1,3],[1,4],[2,3],[2,4]; larger operands are enumerated diagonally
    return EQ(prod) if len(a) <= 2 and len(b) <= 2 else MS(prod)


def r_cartesian_over(rows):
    size = 1
    for r in rows:
        size *= len(r)
    if size > 3000:
        return SKIP("cap")
    return EQ([list(t) for t in itertools.product(*rows)])      # "itertools.product(*a)"


def r_cartesian_power(a, n):
    if len(a) ** n > 3000:
        return SKIP("cap")
    out = [list(t) for t in itertools.product(list(a), repeat=n)]
    if isinstance(a, str):
        out = ["".join(t) for t in out]
    return EQ(out)                                              # examples are in product order


def r_count(a, x):
    return EQ(a.count(x))


def r_contains(a, x):
    return EQ(1 if x in a else 0)


def r_find(a, x):
    if isinstance(a, str):
        return EQ(a.find(x))
    for i, y in enumerate(a):
        if y == x:
            return EQ(i)
    return EQ(-1)


def r_group(a):
    return EQ([list(g) for _, g in itertools.groupby(a)])


def r_counts(a):
    return EQ([[x, a.count(x)] for x in _first_occurrences(a)])


def r_grade_up(a):
    return EQ(sorted(range(len(a)), key=lambda i: (a[i], i)))


def r_grade_down(a):
    # descending by value; equal items keep ascending index order (APL grade down)
    idx = list(range(len(a)))
    out = []
    for v in sorted(set(a), reverse=True):
        out.extend(i for i in idx if a[i] == v)
    return EQ(out)


# ---------------------------------------------------------------------------
# domains: categories of the first argument + kind of the extra argument

LISTS_FLAT = ["int", "num", "strs"]
LISTS_ALL = ["int", "num", "strs", "nest", "rows", "mixed"]
DOMAINS = {
    # name: (categories of the list argument, extra-argument kind)
    "ordered": (["int", "num", "strs", "str"], None),
    "ordered-list": (["int", "num", "strs"], None),
    "numeric": (["int", "num"], None),
    "summable": (["int", "num", "strs"], None),
    "cumulable": (["int", "num", "strs", "str"], None),
    "any": (LISTS_ALL + ["str"], None),
    "any-list": (LISTS_ALL, None),
    "hashable": (["int", "num", "strs", "str"], None),
    "nested": (["int", "nest", "rows", "mixed", "str"], None),
    "rows": (["rows"], None),
    "rows+fill": (["rows"], "fill"),
    "any+size": (LISTS_ALL + ["str"], "size"),
    "any+item": (LISTS_ALL + ["str"], "item"),
    "any+power": (["int", "num", "mixed", "str"], "power"),
    "pair": (LISTS_ALL + ["str"], "list"),
}

LAWS = [
    # (name, program, arity, domain, rhs)
    ("sort", "s", 1, "ordered", r_sort),
    ("reverse", "Ṙ", 1, "any", r_reverse),
    ("reverse-involution", "ṘṘ", 1, "any", r_identity),
    ("bifurcate", "Ḃ", 1, "any", r_bifurcate),
    ("uniquify", "U", 1, "any", r_uniquify),
    ("uniquify-mask", "ÞU", 1, "hashable", r_uniquify_mask),
    ("flatten", "f", 1, "nested", r_flatten),
    ("sum", "∑", 1, "summable", r_sum),
    ("product", "Π", 1, "numeric", r_product),
    ("max", "G", 1, "ordered", r_max),
    ("min", "g", 1, "ordered", r_min),
    ("cumsum", "¦", 1, "cumulable", r_cumsum),
    ("deltas", "¯", 1, "numeric", r_deltas),
    ("zip", "Z", 2, "pair", r_zip),
    ("zip-self", "z", 1, "any", r_zip_self),
    ("transpose", "∩", 1, "rows", r_transpose),
    ("transpose-fill", "ÞṪ", 2, "rows+fill", r_transpose_fill),
    ("interleave", "Y", 2, "pair", r_interleave),
    ("uninterleave", "y", 1, "any", r_uninterleave),
    ("uninterleave-interleave", "yY", 1, "any", r_identity),
    ("chunks", "ẇ", 2, "any+size", r_chunks),
    ("windows", "l", 2, "any+size", r_windows),
    ("prefixes", "K", 1, "any-list", r_prefixes),
    ("sublists", "ÞS", 1, "any-list", r_sublists),
    ("powerset", "ṗ", 1, "any", r_powerset),
    ("permutations", "Ṗ", 1, "any", r_permutations),
    ("cartesian", "Ẋ", 2, "pair", r_cartesian),
    ("cartesian-over-list", "Þ*", 1, "rows", r_cartesian_over),
    ("cartesian-power", "ÞẊ", 2, "any+power", r_cartesian_power),
    ("count", "O", 2, "any+item", r_count),
    ("contains", "c", 2, "any+item", r_contains),
    ("find", "ḟ", 2, "any+item", r_find),
    ("group-consecutive", "Ġ", 1, "any", r_group),
    ("counts", "Ċ", 1, "any", r_counts),
    ("grade-up", "⇧", 1, "ordered-list", r_grade_up),
    ("grade-down", "⇩", 1, "ordered-list", r_grade_down),
]
LAW = {row[0]: row for row in LAWS}

# laws on the result of another structural element (what the first one hands on may be lazy, flagged,
# shared ...): `P Q` on a flat numeric list must be Q's definition applied to P's definition
PRE = ["sort", "reverse", "uniquify", "cumsum", "deltas"]


def _composed(pre, post):
    _, pprog, _, _, prhs = LAW[pre]
    _, qprog, qar, qdom, qrhs = LAW[post]

    def rhs(a, *ex):
        first = prhs(a)
        if first[0] != "eq" or len(first[1]) != 1 or not isinstance(first[1][0], list):
            return SKIP("first stage has no single list result")
        return qrhs(py(first[1][0]), *ex)

    prog = pprog + " " + qprog if qar == 1 else "$" + pprog + "$ " + qprog
    return (pre + ">" + post, prog, qar, qdom, rhs)


COMPOSED = []
for _p in PRE:
    for _q, _prog, _ar, _dom, _rhs in LAWS:
        _cats, _extra = DOMAINS[_dom]
        if "int" in _cats and _extra in (None, "size", "item") and _ar in (1, 2) and len(_prog) <= 2:
            COMPOSED.append(_composed(_p, _q))
for _row in COMPOSED:
    LAW[_row[0]] = _row

# measured on the unchanged tree (seed 0): least-evaluated law (deltas) 7 179 quick / 53 385 thorough;
# variants plain 215 047 / 2 033 613, lazy 201 403 / 1 889 528, sym 135 179 / 1 174 160. Minimum = measured / 5.
MIN_COUNTERS = {f"law:{name}": {"quick": 1400, "thorough": 10000} for name, *_ in LAWS}
MIN_COUNTERS["variant:lazy"] = {"quick": 40000, "thorough": 370000}
MIN_COUNTERS["variant:plain"] = {"quick": 40000, "thorough": 400000}
MIN_COUNTERS["variant:sym"] = {"quick": 27000, "thorough": 230000}
MIN_COUNTERS["composed_law_instances"] = {"quick": 50000, "thorough": 50000}

# ---------------------------------------------------------------------------
# workload


def _lists_over(alpha, n):
    return [list(t) for t in itertools.product(alpha, repeat=n)]


def units(tier, seed):
    u = []
    L = EX_LEN[tier]
    # exhaustive flat integer lists: one unit per (length, prefix) of about 216 lists
    for n in range(0, L + 1):
        if n <= 3:
            u.append({"kind": "ex", "len": n, "lead": []})
        else:
            for lead in itertools.product(ALPHA, repeat=n - 3):
                u.append({"kind": "ex", "len": n, "lead": list(lead)})
    # exhaustive pairs: one unit per left list
    P = EX_PAIR_LEN[tier]
    lefts = [a for n in range(P + 1) for a in _lists_over(ALPHA, n)]
    step = 8 if tier == "quick" else 4
    for i in range(0, len(lefts), step):
        u.append({"kind": "expair", "lefts": lefts[i:i + step], "maxlen": P})
    # exhaustive ragged matrices
    R = EX_ROWS_LEN[tier]
    for n in range(0, R + 1):
        if n <= 2:
            u.append({"kind": "exrows", "len": n, "lead": []})
        else:
            for lead in itertools.product(ALPHA, repeat=n - 2):
                u.append({"kind": "exrows", "len": n, "lead": list(lead)})
    for cat in ("int", "num", "strs", "str", "nest", "rows", "mixed"):
        u.append({"kind": "boundary", "cat": cat})
    for k in range(RANDOM_UNITS[tier]):
        u.append({"kind": "rnd", "seed": seed * 100003 + k, "n": RANDOM_PER_UNIT, "exlen": L})
    return u


def setup_worker():
    pass


WORDS = ["", "a", "b", "ab", "ba", "abc", "Hello", "a b", "zz top", "A", "xyz", "aba", "é", "x"]
CHARS = "abcxyz AB\n\t.*\\(["


def _rint(r):
    x = r.random()
    if x < 0.55:
        return r.randint(-3, 4)
    if x < 0.85:
        return r.randint(-30, 30)
    return r.randint(-10 ** 6, 10 ** 6)


def _rrat(r):
    q = r.choice([2, 3, 4, 5, 7, 10])
    f = Fraction(r.randint(-15, 15), q)
    return int(f) if f.denominator == 1 else {"q": [f.numerator, f.denominator]}


def _rlen(r):
    x = r.random()
    if x < 0.1:
        return r.randint(0, 1)
    if x < 0.6:
        return r.randint(2, 6)
    return r.randint(7, 12)


def _rnest(r, depth, maxlen):
    out = []
    for _ in range(r.randint(0, maxlen)):
        if depth > 1 and r.random() < 0.4:
            out.append(_rnest(r, depth - 1, max(1, maxlen - 1)))
        else:
            out.append(r.randint(-3, 4))
    return out


def random_list(r, cat):
    n = _rlen(r)
    if cat == "int":
        if r.random() < 0.3:      # many duplicates
            pool = [_rint(r) for _ in range(3)]
            return [r.choice(pool) for _ in range(n)]
        return [_rint(r) for _ in range(n)]
    if cat == "num":
        pool = [_rrat(r) if r.random() < 0.5 else _rint(r) for _ in range(max(2, n))]
        return [r.choice(pool) if r.random() < 0.3 else (_rrat(r) if r.random() < 0.5 else r.randint(-3, 4))
                for _ in range(n)]
    if cat == "strs":
        return [r.choice(WORDS) for _ in range(n)]
    if cat == "str":
        return "".join(r.choice(CHARS) for _ in range(n))
    if cat == "nest":
        return _rnest(r, 3, min(n, 6))
    if cat == "rows":
        return [[r.randint(-3, 4) for _ in range(r.randint(0, 4))] for _ in range(min(n, 6))]
    if cat == "mixed":
        out = []
        for _ in range(n):
            x = r.random()
            if x < 0.45:
                out.append(r.randint(-3, 4))
            elif x < 0.7:
                out.append(r.choice(WORDS))
            elif x < 0.8:
                out.append(_rrat(r))
            else:
                out.append(_rnest(r, 2, 3))
        return out
    raise ValueError(cat)


def category_of(a):
    """category of a plain spec (used when replaying a single case)"""
    if isinstance(a, str):
        return "str"
    p = py(a)
    if all(isinstance(x, int) for x in p):
        return "int"
    if all(isinstance(x, (int, Fraction)) for x in p):
        return "num"
    if all(isinstance(x, str) for x in p):
        return "strs"
    if all(isinstance(x, list) and all(isinstance(y, int) for y in x) for x in p):
        return "rows"
    if all(isinstance(x, (int, list)) for x in p) and not any(isinstance(y, (str, Fraction)) for y in _leaves(p)):
        return "nest"
    return "mixed"


def extras(kind, a, cat, r, exhaustive):
    """extra-argument tuples for one list argument"""
    if kind is None:
        return [()]
    n = len(a)
    if kind == "size":
        if exhaustive:
            return [(k,) for k in range(1, n + 2)]
        ks = {1, 2, max(1, n), n + 1, r.randint(1, max(1, n))}
        return [(k,) for k in sorted(ks)]
    if kind == "power":
        if exhaustive:
            return [(k,) for k in range(0, 3)] if n <= 3 else []
        return [(k,) for k in (0, 1, 2, 3) if n ** k <= 400]
    if kind == "fill":
        return [(0,), (9,)] if exhaustive else [(r.choice([0, 9, -1]),)]
    if kind == "item":
        if exhaustive:
            return [(x,) for x in ALPHA + [ABSENT]]
        if cat == "str":
            out = []
            if n:
                i = r.randrange(n)
                out.append((a[i],))
                j = r.randrange(n)
                out.append((a[j:j + 2],))
            out.append(("q",))
            return out
        out = []
        if n:
            out.append((a[r.randrange(n)],))
            out.append((a[-1],))
        out.append((ABSENT,))
        out.append(("absent",))
        out.append(([ABSENT],))
        return out
    raise ValueError(kind)


def to_lazy(spec, deep):
    if isinstance(spec, list):
        items = [to_lazy(x, deep) if deep else x for x in spec]
        return {"lazy": items}
    return spec


def has_inner_list(a):
    return isinstance(a, list) and any(isinstance(x, list) for x in a)


# ---------------------------------------------------------------------------
# running one law instance


class Acc:
    def __init__(self):
        self.res = {"evals": 0, "keys": [], "distinct": 0, "violations": [], "inconclusive": [],
                    "skips": {}, "counters": {}, "samples": []}

    def count(self, name, n=1):
        c = self.res["counters"]
        c[name] = c.get(name, 0) + n

    def admit(self, mechanism):
        """keep at most 3 witnesses per mechanism and 20 per unit; count the rest"""
        self.per_mech = getattr(self, "per_mech", {})
        n = self.per_mech.get(mechanism, 0)
        if n >= 3 or len(self.res["violations"]) >= 20:
            self.count("violations_suppressed")
            return False
        self.per_mech[mechanism] = n + 1
        return True

    def skip(self, reason):
        s = self.res["skips"]
        s[reason] = s.get(reason, 0) + 1


def _joined(members):
    """the collection with every member whose items are all strings replaced by their concatenation"""
    return ["".join(m) if isinstance(m, list) and all(isinstance(x, str) for x in m) else m for m in members]


# Divergences from the reference right-hand sides that the lead judged to be conventions the
# documents do not fix (so demanding them would be a false alarm), see DESIGN.md §C16:
#  * the product of an empty list (the fold returns 0; "prod(a)" is not defined for [] in the docs);
#  * collections whose members consist only of strings are joined into one string (deliberate
#    string-overload behaviour of Ṗ / ẇ / ÞẊ);
#  * ÞẊ (cartesian *power*) with power 0 and Ġ on the empty *string* ("" instead of []).
NOT_DEMANDED = {
    "product:mismatch:empty-list",
    "permutations:mismatch:string-items-joined",
    "chunks:mismatch:string-items-joined",
    "cartesian-power:mismatch:string-items-joined",
    "cartesian-power:mismatch:power-0",
    "group-consecutive:mismatch:empty-string",
}


def qualifier(name, args, expect, observed):
    """coarse, value-free description of the instance / of the way it differs; part of the mechanism tag"""
    a = args[0]
    p = py(a)
    if name == "cartesian-power" and args[1] == 0:
        return ":power-0"
    if len(p) == 0:
        return ":empty-list" if not isinstance(a, str) else ":empty-string"
    if len(args) > 1 and isinstance(args[1], (list, str)) and len(args[1]) == 0:
        return ":empty-list" if not isinstance(args[1], str) else ":empty-string"
    if name == "find" and isinstance(a, str) and isinstance(args[1], str) and len(args[1]) != 1:
        return ":substring-needle"
    if observed is not None and not isinstance(a, str):
        exp = expect[1][0] if expect[0] == "eq" else expect[1]
        got = observed[0]
        if isinstance(exp, list) and isinstance(got, list):
            if (expect[0] == "eq" and _joined(exp) == got) or (expect[0] == "ms" and _ms(_joined(exp)) == _ms(got)):
                return ":string-items-joined"
    return ""


def run_case(acc, name, args, variant):
    """args: plain specs. Returns True when the instance was evaluated."""
    from lib import env, values
    from lib.worker import watchdog, Watchdog

    _, prog, arity, _dom, rhs = LAW[name]
    expect = rhs(*[py(x) for x in args])
    if expect[0] == "skip":
        acc.skip(f"{name}: {expect[1]}")
        return False
    if variant in ("plain", "sym"):
        specs = list(args)
    else:
        specs = [to_lazy(x, variant == "deep-lazy") for x in args]
    case = {"kind": "case", "law": name, "args": list(args), "variant": variant}
    observed = None
    err = None
    try:
        with watchdog(CASE_SECONDS if ">" not in name else 5):
            stack = [values.from_spec(s) for s in specs]
            if variant == "sym":
                stack = [_sympy_ints(v) for v in stack]
            r = env.run_text(prog, stack=stack)
            if r.error is not None:
                err = f"{r.error[0]}: {type(r.error[1]).__name__}: {r.error[1]}"[:300]
            else:
                k = len(expect[1]) if expect[0] == "eq" else 1
                if len(r.stack) < k:
                    err = f"stack has {len(r.stack)} values, law needs {k}"
                else:
                    try:
                        observed = [values.canon_loose(v, 6000) for v in r.stack[len(r.stack) - k:]]
                    except (RecursionError, MemoryError):
                        raise
                    except Exception as e:  # noqa  (a lazy result raising while it is read)
                        err = f"reading the result: {type(e).__name__}: {e}"[:300]
    except Watchdog:
        acc.res["inconclusive"].append({"why": "watchdog", "unit": case})
        acc.dogs = getattr(acc, "dogs", 0) + 1
        if acc.dogs >= 4:
            raise _AbortUnit()
        return False
    except (RecursionError, MemoryError) as e:
        acc.res["inconclusive"].append({"why": type(e).__name__, "unit": case})
        return False
    acc.res["evals"] += 1
    acc.count(f"law:{name}")
    acc.count(f"variant:{variant}")
    ok = True
    kind = "mismatch"
    if err is not None:
        ok, kind = False, "raises"
    elif expect[0] == "eq":
        ok = observed == expect[1]
    else:
        got = observed[0]
        ok = isinstance(got, list) and _ms(got) == _ms(expect[1])
    if ok:
        if len(acc.res["samples"]) < 3 and len(py(args[0])) >= 3:
            acc.res["samples"].append({"law": name, "program": prog, "args": list(args), "variant": variant,
                                       "observed": observed if len(_key(observed)) < 300 else "(long)"})
        return True
    base, qargs = name, args
    if ">" in name:
        # a composed law differs the way its second stage differs, on what the first stage's definition gives
        pre, base = name.split(">", 1)
        mid = py(LAW[pre][4](py(args[0]))[1][0])
        qargs = [mid] + list(args[1:])
    qual = qualifier(base, qargs, expect, observed)
    mech = f"{name}:{kind}{qual}"
    if f"{base}:{kind}{qual}" in NOT_DEMANDED:
        # behaviour the property statement / documentation does not determine: counted, never a verdict
        acc.res["evals"] -= 1
        acc.skip("not-demanded:" + mech)
        return True
    acc.count("violations_seen")
    if not acc.admit(mech):
        return True
    exp_txt = _key(expect[1])
    obs_txt = err if err is not None else _key(observed if expect[0] == "eq" else observed[0])
    acc.res["violations"].append({
        "mechanism": mech,
        "what": (f"law {name}: `{prog}` on {_key(list(args))} ({variant}): expected "
                 f"{'(as multiset) ' if expect[0] == 'ms' else ''}{exp_txt[:160]}, observed {obs_txt[:160]}"),
        "unit": case,
        "law": name,
        "program": prog,
        "expected": expect[1] if len(exp_txt) < 2000 else exp_txt[:2000],
        "observed": (err if err is not None else observed) if len(obs_txt) < 2000 else obs_txt[:2000],
        "compare": expect[0],
    })
    return True


def _sympy_ints(v):
    """the same value with every Python int replaced by a sympy Integer (what `3 4"` builds)"""
    import sympy

    if isinstance(v, bool):
        return v
    if isinstance(v, int):
        return sympy.Integer(v)
    if isinstance(v, list):
        return [_sympy_ints(x) for x in v]
    return v


def variants_for(a, cat):
    if cat == "str":
        return ["plain"]
    if has_inner_list(a):
        return ["plain", "lazy", "deep-lazy"]
    if cat in ("int", "num"):
        return ["plain", "lazy", "sym"]
    return ["plain", "lazy"]


MATRIX_LAWS = {"transpose", "transpose-fill", "cartesian-over-list", "flatten"}


def run_list(acc, a, cat, r, exhaustive, only=None):
    """all laws whose domain contains category `cat`, on list `a` (monadic and list+extra laws)"""
    tuples = set()
    for name, _prog, _arity, dom, _rhs in LAWS:
        cats, extra = DOMAINS[dom]
        if cat not in cats or extra == "list" or (only is not None and name not in only):
            continue
        for ex in extras(extra, a, cat, r, exhaustive):
            args = (a,) + ex
            for v in variants_for(a, cat):
                run_case(acc, name, list(args), v)
            tuples.add(_key(list(args)))
    if cat in ("int", "num") and only is None and (not exhaustive or len(a) <= 3):
        for name, _prog, _arity, dom, _rhs in COMPOSED:
            cats, extra = DOMAINS[dom]
            if cat not in cats:
                continue
            exs = extras(extra, a, cat, r, exhaustive)
            for ex in exs:
                for v in ("plain", "lazy"):
                    if run_case(acc, name, [a] + list(ex), v):
                        acc.count("composed_law_instances")
    return tuples


def run_pair(acc, a, b, cat):
    for name, _prog, _arity, dom, _rhs in LAWS:
        cats, extra = DOMAINS[dom]
        if extra != "list" or cat not in cats:
            continue
        vs = ["plain"] if cat == "str" else ["plain", "lazy", "sym"] if cat in ("int", "num") else ["plain", "lazy"]
        for v in vs:
            run_case(acc, name, [a, b], v)


def compositions(n):
    """all ways to cut n cells into rows of length >= 1"""
    if n == 0:
        return [[]]
    out = []
    for first in range(1, n + 1):
        for rest in compositions(n - first):
            out.append([first] + rest)
    return out


def in_exhaustive_space(args, exlen):
    a = args[0]
    return (isinstance(a, list) and len(a) <= exlen and all(isinstance(x, int) and -2 <= x <= 3 for x in a)
            and all(isinstance(x, int) for x in args[1:]))


class _AbortUnit(Exception):
    """too many cases of one unit ran into the watchdog: the rest of the unit is left out (inconclusive)"""


def run_unit(unit):
    acc = Acc()
    try:
        return _run_unit(unit, acc)
    except _AbortUnit:
        acc.res["inconclusive"].append({"why": "unit stopped after 4 watchdogs", "unit": unit})
        return acc.res


def _run_unit(unit, acc):
    from lib import harness

    res = acc.res
    k = unit["kind"]
    if k == "case":
        run_case(acc, unit["law"], unit["args"], unit["variant"])
        res["distinct"] = 1
        return res
    if k == "ex":
        r = random.Random(0)
        n, lead = unit["len"], unit["lead"]
        for tail in itertools.product(ALPHA, repeat=n - len(lead)):
            a = list(lead) + list(tail)
            t = run_list(acc, a, "int", r, True)
            if len(a) >= 2:
                res["distinct"] += len(t)
        return res
    if k == "expair":
        rights = [b for n in range(unit["maxlen"] + 1) for b in _lists_over(ALPHA, n)]
        for a in unit["lefts"]:
            for b in rights:
                run_pair(acc, a, b, "int")
                if len(a) >= 2 or len(b) >= 2:
                    res["distinct"] += 1
        return res
    if k == "exrows":
        r = random.Random(0)
        n, lead = unit["len"], unit["lead"]
        for tail in itertools.product(ALPHA, repeat=n - len(lead)):
            flat = list(lead) + list(tail)
            for comp in compositions(n):
                rows, i = [], 0
                for w in comp:
                    rows.append(flat[i:i + w])
                    i += w
                shapes = [rows] + [rows[:j] + [[]] + rows[j:] for j in range(len(rows) + 1)]
                for m in shapes:
                    t = run_list(acc, m, "rows", r, True, MATRIX_LAWS)
                    if n >= 2:
                        res["distinct"] += len(t)
        return res
    if k == "boundary":
        # the quantifier's boundary, independent of the seed: empty and one-item values of every category
        r = random.Random(0)
        fixed = [
            ("int", []), ("int", [0]), ("int", [5]), ("num", [{"q": [1, 2]}]), ("num", [{"q": [-3, 2]}, 1]),
            ("strs", [""]), ("strs", ["ba"]), ("strs", ["a", "b"]), ("strs", ["ab", "", "c"]),
            ("str", ""), ("str", "a"), ("str", "ab"), ("str", "aab"), ("str", "abcabc"),
            ("str", "a\n\nb"), ("str", "\n"), ("str", "a.b*"), ("str", "\t\t \\"), ("strs", ["\n", "a\nb"]),
            ("nest", [[]]), ("nest", [[], [[]]]), ("nest", [[1], 2]), ("rows", [[]]), ("rows", [[], []]),
            ("rows", [[1]]), ("mixed", ["a", 1]), ("mixed", [[1], "a", 1]),
        ]
        for cat, a in fixed:
            if cat != unit.get("cat", cat):
                continue
            t = run_list(acc, a, cat, r, False)
            for cat2, b in fixed:
                if cat2 == cat:
                    run_pair(acc, a, b, cat)
            if len(a) >= 2:
                res["keys"].extend(harness.short_hash(json.loads(key)) for key in t)
        return res
    if k == "rnd":
        r = random.Random(unit["seed"])
        cats = ["int", "num", "strs", "str", "nest", "rows", "mixed"]
        weights = [4, 3, 2, 3, 2, 2, 3]
        for _ in range(unit["n"]):
            cat = r.choices(cats, weights)[0]
            a = random_list(r, cat)
            t = run_list(acc, a, cat, r, False)
            b = random_list(r, cat)
            if r.random() < 0.3 and not isinstance(a, str):
                b = (b + b + b)[:len(a)]          # equal lengths often
            run_pair(acc, a, b, cat)
            if len(a) >= 2:
                for key in t:
                    args = json.loads(key)
                    if not in_exhaustive_space(args, unit.get("exlen", 4)):
                        res["keys"].append(harness.short_hash(args))
                res["keys"].append(harness.short_hash([a, b]))
        return res
    raise ValueError(k)


def classify(w):
    m = w.get("mechanism")
    if not m:
        return None
    return "C16-" + m.replace(":", "-")


def finalize(agg, tier):
    laws_seen = sorted(k[4:] for k in agg["counters"] if k.startswith("law:"))
    mechanisms = {}
    for w in agg["violations"]:
        m = w.get("mechanism", "?")
        mechanisms[m] = mechanisms.get(m, 0) + 1
    return {
        "laws": len(LAWS),
        "laws_evaluated": len(laws_seen),
        "mechanisms_reported": dict(sorted(mechanisms.items())),
        "exhaustive": False,
        "exhaustive_part": f"all integer lists over -2..3 of length <= {EX_LEN[tier]}; pairs <= {EX_PAIR_LEN[tier]}; "
                           f"ragged matrices with <= {EX_ROWS_LEN[tier]} cells",
    }
