"""C14 — finite prefixes of infinite lists are computed lazily and terminate.

M-SRC: an instrumented infinite source (a generator that counts pulls and
raises `PullBudgetExceeded(BaseException)` past a logical cap) is wrapped
exactly the way the repo builds its own infinite lists
(`LazyList(gen(), isinf=True)`, and the `@lazylist` style `LazyList(gen())`
used by `Þ∞`). Catalogued transformations (data/c14_catalogue.json) and
compositions of up to three of them are applied *through program text* on a
stack holding that list. Then the first n items are taken

  * by Python-level iteration (`itertools.islice`; one run checks n = 1..40,
    the pull counter is read after every item),
  * by the Vyxal element for "first n" (`{n}Ẏ`) and for "item n" (`{n}i`),

and the pulls are compared with the catalogue's linear `need(n)` (+ slack), the
values with the same program run on a long finite prefix of the same source.
Over-forcing is decided on the logical pull count, never on wall-clock; a spin
that does not pull hits the watchdog and is inconclusive.
"""
from __future__ import annotations

import itertools
import json
import os
import random

ID = "C14"
LEVEL = "exploration"
DESIGN_REF = "DESIGN.md §1 C14"
RULE = (
    "every catalogue entry on every source shape it accepts (nat 1,2,3.. / dup 1,1,2,2.. / pair [i,i+1]) "
    "and both constructions of the infinite list, every type-fitting composition of 2 entries, and "
    "type-fitting compositions of 3 entries (quick: 400 seeded samples; thorough: all), each for n = 1..40 "
    "by iteration and for a set of n by the first-n and item-n elements. distinct_nontrivial counts "
    "distinct (composition, source shape, construction, n) whose pull count was actually compared with "
    "the bound in iteration mode (units are disjoint by construction)."
)
ASSUMPTIONS = [
    "need(n) per transformation is committed data (data/c14_catalogue.json): measured on the pinned tree "
    "as a linear function, fixed, slack 8 added once per composition; compositions are bounded by the "
    "composed needs",
    "data-dependent transformations (filter, uniquify, group, run-length, truthy indices) are only used as "
    "the first stage, on a source whose values are known, because their need depends on the values; the catalogue "
    "additionally has six fixed pipelines in which such a transformation follows one whose items are pairwise "
    "distinct (prefixes / enumerate, rows plain or turned lazy by arithmetic or a map), where its need is known",
    "'terminates' is the bounded statement 'returns within the pull budget'; a run that neither returns "
    "nor pulls is reported inconclusive (watchdog), never held or violated",
    "value reference: the same program on a finite prefix of the source (plain list when short, else a "
    "finite lazy list)",
]
MIN_COUNTERS = {
    "pull_checks": {"quick": 20_000, "thorough": 300_000},
    "value_checks": {"quick": 20_000, "thorough": 300_000},
    "compositions_run": {"quick": 300, "thorough": 6_000},
    "element_take_runs": {"quick": 1_500, "thorough": 20_000},
}
UNIT_TIMEOUT = 1200
MAX_INCONCLUSIVE_ABS = 3
MAX_INCONCLUSIVE_FRAC = 0.0005

CATALOGUE_PATH = os.path.join(os.path.dirname(os.path.dirname(os.path.dirname(os.path.abspath(__file__)))),
                              "data", "c14_catalogue.json")
_cat = None


def catalogue():
    global _cat
    if _cat is None:
        with open(CATALOGUE_PATH, encoding="utf-8") as f:
            _cat = json.load(f)
        _cat["by_id"] = {e["id"]: e for e in _cat["entries"]}
    return _cat


class PullBudgetExceeded(BaseException):
    """Raised by the instrumented source past its logical cap (BaseException so
    that `except Exception` in the code under test cannot swallow it)."""


# --------------------------------------------------------------------------
# catalogue algebra
# --------------------------------------------------------------------------
def item_of(shape, i):
    if shape == "nat":
        return i
    if shape == "dup":
        return (i + 1) // 2
    if shape == "pair":
        return [i, i + 1]
    if shape == "zero":
        return 0
    if shape == "alt":
        return 1 if i % 2 else -1
    raise ValueError(shape)


def need_of(entry, shape):
    nd = entry["need"]
    return nd.get(shape) or nd.get("*")


def fits(ids, shape):
    """Type-fit of a composition (first id is applied first). Returns True/False."""
    cat = catalogue()
    kind = cat["sources"][shape]["kind"]
    for pos, i in enumerate(ids):
        e = cat["by_id"][i]
        if pos > 0 and e["first_only"]:
            return False
        if shape in e.get("not_shapes", ()):
            return False
        if kind not in e["in"]:
            return False
        if pos == 0 and need_of(e, shape) is None:
            return False
        if pos > 0 and e["need"].get("*") is None:
            return False
        if e["out"] != "same":
            kind = e["out"]
    return True


def bound_fn(ids, shape):
    """need1(need2(need3(n))) for T3(T2(T1(src))), without slack."""
    cat = catalogue()
    needs = []
    for pos, i in enumerate(ids):
        e = cat["by_id"][i]
        needs.append(need_of(e, shape) if pos == 0 else e["need"]["*"])

    def total(n):
        k = n
        for num, den, b in reversed(needs):
            k = -((-num * k) // den) + b
        return k

    return total


def program_of(ids):
    cat = catalogue()
    return " ".join(cat["by_id"][i]["text"] for i in ids)


def all_shapes_for(ids):
    return [s for s in ("nat", "dup", "pair", "zero", "alt") if fits(ids, s)]


def enumerate_comps(k):
    ids = [e["id"] for e in catalogue()["entries"]]
    out = []
    for combo in itertools.product(ids, repeat=k):
        shapes = all_shapes_for(combo)
        if shapes:
            out.append((list(combo), shapes))
    return out


# --------------------------------------------------------------------------
# work units
# --------------------------------------------------------------------------
NS_ALL = list(range(0, 41))


def units(tier, seed):
    r = random.Random(seed)
    jobs = []  # (ids, shape, isinf, ns_take)
    for ids, shapes in enumerate_comps(1):
        for s in shapes:
            for isinf in (True, False):
                jobs.append((ids, s, isinf, NS_ALL))
    pairs = enumerate_comps(2)
    for idx, (ids, shapes) in enumerate(pairs):
        if tier == "quick":
            s = shapes[(idx + seed) % len(shapes)]
            jobs.append((ids, s, True, [0, 1, 2, 7, 40]))
        else:
            for s in shapes:
                jobs.append((ids, s, True, [0, 1, 2, 3, 5, 8, 13, 21, 40]))
            jobs.append((ids, shapes[(idx + seed) % len(shapes)], False, [1, 40]))
    triples = enumerate_comps(3)
    if tier == "quick":
        chosen = r.sample(range(len(triples)), min(400, len(triples)))
        for idx in sorted(chosen):
            ids, shapes = triples[idx]
            jobs.append((ids, shapes[(idx + seed) % len(shapes)], True, [3, 40]))
    else:
        for idx, (ids, shapes) in enumerate(triples):
            jobs.append((ids, shapes[(idx + seed) % len(shapes)], True, [2, 40]))
    # batch: singles are heavy (80 element runs each), compositions light
    out = []
    batch, weight = [], 0
    for j in jobs:
        w = 1 + 2 * len(j[3])
        batch.append({"ids": j[0], "shape": j[1], "isinf": j[2], "ns": j[3]})
        weight += w
        if weight >= (400 if tier == "quick" else 600):
            out.append({"kind": "batch", "jobs": batch})
            batch, weight = [], 0
    if batch:
        out.append({"kind": "batch", "jobs": batch})
    return out


def setup_worker():
    catalogue()


# --------------------------------------------------------------------------
# instrumented source
# --------------------------------------------------------------------------
class Src:
    def __init__(self, shape, cap, isinf=True, finite=None, plain=False):
        from vyxal.LazyList import LazyList

        self.pulls = 0
        self.exceeded = False
        self.cap = cap
        st = self

        if finite is not None:
            items = [item_of(shape, i) for i in range(1, finite + 1)]
            self.value = items if plain else LazyList(iter(items))
            return

        def gen():
            i = 0
            while True:
                if st.pulls >= st.cap:
                    st.exceeded = True
                    raise PullBudgetExceeded(f"source asked for item {st.pulls + 1}, cap {st.cap}")
                st.pulls += 1
                i += 1
                yield item_of(shape, i)

        # mirrors vyxal.elements: `LazyList(gen(), isinf=True)` (Þp, ÞF, ...) and the
        # `@lazylist def gen()` construction of Þ∞ (isinf stays False)
        self.value = LazyList(gen(), isinf=True) if isinf else LazyList(gen())


def _canon(v):
    from lib.values import canon

    return canon(v, 400)


class Outcome:
    __slots__ = ("status", "pulls", "value", "error", "p0")


def execute(program, src, take, wd=20):
    """Run `program` on a stack holding src.value, then take.
    take: ("iter", nmax) -> list of (pulls_after_item_k, canon item)
          ("prog", suffix) -> final top of stack, canon'd
    Returns Outcome with status in ok / error / budget / watchdog."""
    from lib import env
    from lib.worker import watchdog, Watchdog
    from vyxal.LazyList import LazyList

    o = Outcome()
    o.status, o.value, o.error, o.p0 = "ok", None, None, None
    try:
        with watchdog(wd):
            text = program if take[0] == "iter" else program + " " + take[1]
            r = env.run_text(text, stack=[src.value])
            if r.error is not None:
                o.status = "error"
                o.error = f"{r.error[0]}:{type(r.error[1]).__name__}:{r.error[1]}"[:200]
            elif not r.stack:
                o.status = "error"
                o.error = "empty stack"
            else:
                top = r.stack[-1]
                o.p0 = src.pulls
                if take[0] == "iter":
                    if not isinstance(top, (list, LazyList)):
                        o.status = "error"
                        o.error = "result is not a list: " + type(top).__name__
                    else:
                        seq = []
                        for item in itertools.islice(iter(top), take[1]):
                            seq.append((src.pulls, _canon(item)))
                        o.value = seq
                else:
                    o.value = _canon(top)
    except PullBudgetExceeded:
        o.status = "budget"
    except Watchdog:
        o.status = "watchdog"
    except RecursionError as e:
        o.status = "error"
        o.error = "harness-level RecursionError " + str(e)[:80]
    except MemoryError:
        o.status = "error"
        o.error = "MemoryError"
    except Exception as e:  # noqa - raised while iterating the lazy result
        o.status = "error"
        o.error = f"iter:{type(e).__name__}:{e}"[:200]
    if src.exceeded and o.status != "budget":
        o.status = "budget"  # somebody swallowed the BaseException; the count still tells
    o.pulls = src.pulls
    return o


# --------------------------------------------------------------------------
# one composition
# --------------------------------------------------------------------------
def check_comp(job, res, attribute=True):
    cat = catalogue()
    ids, shape, isinf, ns = job["ids"], job["shape"], job.get("isinf", True), job.get("ns", [])
    slack = cat["slack"]
    nmax = cat["n_max"]
    c = res["counters"]
    if not fits(ids, shape):
        res["skips"]["does-not-fit"] = res["skips"].get("does-not-fit", 0) + 1
        return
    total = bound_fn(ids, shape)
    bound = lambda n: total(n) + slack  # noqa: E731
    cap = 4 * bound(nmax + 1) + 64
    program = program_of(ids)
    c["compositions_run"] += 1
    c[f"compositions_of_{len(ids)}"] = c.get(f"compositions_of_{len(ids)}", 0) + 1

    def viol(mech, what, mode, n, **kw):
        culprit = None
        if attribute and len(ids) > 1 and mech in ("over-forcing", "values", "raises"):
            culprit = find_culprit(ids, shape, isinf, mech)
        tag = f"{mech}|{culprit or '+'.join(ids)}"
        w = {"mechanism": tag,
             "what": f"{what} [program {program!r} on the {shape} source, {'isinf=True' if isinf else '@lazylist-style'}, {mode}, n={n}]",
             "unit": {"kind": "batch", "jobs": [{"ids": ids, "shape": shape, "isinf": isinf, "ns": [n] if n else []}]},
             "ids": ids, "program": program, "mode": mode, "n": n, "culprit": culprit}
        w.update(kw)
        key = (tag, mode)
        seen = res.setdefault("_seen", {})
        seen[key] = seen.get(key, 0) + 1
        c["violations_" + mech] = c.get("violations_" + mech, 0) + 1
        if seen[key] <= 1 and len(res["violations"]) < 20:
            res["violations"].append(w)

    # ---- reference values: same program on a long finite prefix ------------
    N = bound(nmax + 1) + 16
    plain = N <= 300
    ref_src = Src(shape, 0, finite=N, plain=plain)
    ref = execute(program, ref_src, ("iter", nmax))
    if ref.status == "ok" and len(ref.value) == nmax:
        ref_vals = [v for _, v in ref.value]
        c["reference_plain_list" if plain else "reference_finite_lazy"] = c.get(
            "reference_plain_list" if plain else "reference_finite_lazy", 0) + 1
    else:
        ref_vals = None
        why = "reference-" + (ref.status if ref.status != "ok" else "short")
        res["skips"][why] = res["skips"].get(why, 0) + 1

    # ---- iteration mode: n = 1..nmax in one run ---------------------------
    src = Src(shape, cap, isinf)
    o = execute(program, src, ("iter", nmax))
    if o.status == "error":
        if o.pulls > bound(nmax):
            viol("over-forcing", f"{o.pulls} pulls before it raised {o.error}, bound for n={nmax} is {bound(nmax)}", "iteration",
                 nmax, pulls=o.pulls, bound=bound(nmax))
            return
        if _resource_error(o.error):
            # recursion / memory limit of the host interpreter: the oracle cannot be evaluated (never a verdict)
            res["skips"]["recursion-or-memory-limit"] = res["skips"].get("recursion-or-memory-limit", 0) + 1
            return
        if ref.status == "error" and ref.error and o.error and ref.error.split(":")[1:2] == o.error.split(":")[1:2]:
            res["skips"]["program-raises-on-finite-too"] = res["skips"].get("program-raises-on-finite-too", 0) + 1
            return
        viol("raises", f"taking a prefix raised {o.error} after {o.pulls} pulls (finite prefix: {ref.status} {ref.error or ''})",
             "iteration", 0, pulls=o.pulls)
        return
    if o.status == "watchdog":
        if o.pulls > bound(nmax):
            viol("over-forcing", f"still running after {o.pulls} pulls, bound for n={nmax} is {bound(nmax)}", "iteration", nmax,
                 pulls=o.pulls, bound=bound(nmax))
        else:
            res["inconclusive"].append({"why": "watchdog: no result and no pulls beyond the bound (spin?)",
                                        "program": program, "shape": shape, "pulls": o.pulls})
        return
    if o.status == "budget":
        got = len(o.value) if o.value else 0
        viol("over-forcing", f"source cap hit: >= {o.pulls} pulls, need({nmax}) = {total(nmax)} (+{slack} slack)", "iteration",
             nmax, pulls=o.pulls, bound=bound(nmax), items_obtained=got)
        return
    seq = o.value
    if o.p0 > bound(0):
        viol("over-forcing", f"{o.p0} pulls before any item was asked for, bound {bound(0)}", "construction", 0,
             pulls=o.p0, bound=bound(0))
    if len(seq) < nmax:
        viol("values", f"result of an infinite list ended after {len(seq)} items", "iteration", len(seq), pulls=o.pulls)
    bad_pull = None
    for k, (p, _v) in enumerate(seq, 1):
        c["pull_checks"] += 1
        res["distinct"] += 1
        res["evals"] += 1
        if p == total(k):
            c["need_met_exactly"] = c.get("need_met_exactly", 0) + 1
        if p > bound(k) and bad_pull is None:
            bad_pull = (k, p)
    if bad_pull:
        k, p = bad_pull
        viol("over-forcing", f"first {k} items pulled {p} items from the source, need({k}) = {total(k)} (+{slack} slack)",
             "iteration", k, pulls=p, bound=bound(k), pulls_per_item=[p for p, _ in seq][:12])
    vals = [v for _, v in seq]
    if ref_vals is not None:
        m = min(len(vals), len(ref_vals))
        c["value_checks"] += m
        for k in range(m):
            if vals[k] != ref_vals[k]:
                viol("values", f"item {k} is {json.dumps(vals[k], ensure_ascii=False)[:120]} but the same program on the first {N} "
                               f"source items ({'plain list' if plain else 'finite lazy list'}) gives "
                               f"{json.dumps(ref_vals[k], ensure_ascii=False)[:120]}", "iteration", k + 1)
                break
    if len(res["samples"]) < 2:
        res["samples"].append({"program": program, "source": shape, "isinf": isinf,
                               "pulls_after_items_1_5_40": [seq[0][0], seq[min(4, len(seq) - 1)][0], seq[-1][0]],
                               "bound_1_5_40": [bound(1), bound(5), bound(40)],
                               "first_items": vals[:3]})

    # ---- element modes ------------------------------------------------------
    take_t, item_t = cat["take"]["first_n"], cat["take"]["item_n"]
    item_sw = cat["take"].get("item_n_swapped")
    for n in ns:
        modes = [
            ("first-n element", take_t.format(n=n), bound(n), None if ref_vals is None else ref_vals[:n]),
            ("item-n element", item_t.format(n=n), bound(n + 1), None if ref_vals is None or n >= len(ref_vals) else ref_vals[n]),
        ]
        if item_sw and n % 5 == 2:
            # the index element with its operands the other way round (number below the list)
            modes.append(("item-n element, operands swapped", item_sw.format(n=n), bound(n + 1),
                          None if ref_vals is None or n >= len(ref_vals) else ref_vals[n]))
        for mode, suffix, b, want in modes:
            src = Src(shape, cap, isinf)
            o = execute(program, src, ("prog", suffix))
            c["element_take_runs"] += 1
            if o.status == "watchdog":
                if o.pulls > b:
                    viol("over-forcing", f"still running after {o.pulls} pulls, bound {b}", mode, n, pulls=o.pulls, bound=b)
                else:
                    res["inconclusive"].append({"why": "watchdog (spin?)", "program": program + " " + suffix,
                                                "shape": shape, "pulls": o.pulls})
                continue
            if o.status == "budget":
                viol("over-forcing", f"source cap hit: >= {o.pulls} pulls, bound {b}", mode, n, pulls=o.pulls, bound=b)
                continue
            if o.status == "error":
                if o.pulls > b:
                    viol("over-forcing", f"{o.pulls} pulls before it raised {o.error}, bound {b}", mode, n, pulls=o.pulls, bound=b)
                elif _resource_error(o.error):
                    res["skips"]["recursion-or-memory-limit"] = res["skips"].get("recursion-or-memory-limit", 0) + 1
                else:
                    viol("raises", f"raised {o.error} after {o.pulls} pulls", mode, n, pulls=o.pulls)
                continue
            c["pull_checks"] += 1
            res["evals"] += 1
            if o.pulls > b:
                viol("over-forcing", f"pulled {o.pulls} items from the source, bound {b} (need without slack {b - slack})",
                     mode, n, pulls=o.pulls, bound=b)
            if want is not None:
                c["value_checks"] += 1
                if o.value != want:
                    viol("values", f"gave {json.dumps(o.value, ensure_ascii=False)[:120]}, iteration over the finite prefix gives "
                                   f"{json.dumps(want, ensure_ascii=False)[:120]}", mode, n)


def _resource_error(err):
    return bool(err) and ("RecursionError" in err or "MemoryError" in err)


def find_culprit(ids, shape, isinf, mech):
    """Attribute a failing composition to a single stage when that stage fails
    on its own (the singles are all in the workload, this only names the tag)."""
    cat = catalogue()
    for i in ids:
        shapes = [shape] if fits([i], shape) else all_shapes_for([i])
        for s in shapes[:1]:
            tmp = {"evals": 0, "distinct": 0, "violations": [], "inconclusive": [], "skips": {}, "samples": [{}, {}],
                   "counters": {"pull_checks": 0, "value_checks": 0, "compositions_run": 0, "element_take_runs": 0}}
            try:
                check_comp({"ids": [i], "shape": s, "isinf": isinf, "ns": [3]}, tmp, attribute=False)
            except BaseException:  # noqa
                continue
            if any(v["mechanism"].split("|")[0] == mech for v in tmp["violations"]):
                return i
    return None


def run_unit(unit):
    res = {"evals": 0, "keys": [], "distinct": 0, "violations": [], "inconclusive": [], "skips": {},
           "counters": {"pull_checks": 0, "value_checks": 0, "compositions_run": 0, "element_take_runs": 0},
           "samples": []}
    for job in unit["jobs"]:
        if len(res["violations"]) >= 3:
            # a broken tree fails thousands of compositions (each costing a pull-cap run and a culprit
            # search): three witnesses per unit are enough, the rest is counted
            res["skips"]["skipped-after-3-witnesses-in-unit"] = res["skips"].get("skipped-after-3-witnesses-in-unit", 0) + 1
            continue
        check_comp(job, res)
    res.pop("_seen", None)
    return res


def classify(w):
    return None  # no known C14 findings on the pinned tree


def finalize(agg, tier):
    cat = catalogue()
    c = agg["counters"]
    return {
        "catalogue_entries": len(cat["entries"]),
        "exhaustive": False,
        "need_met_exactly": c.get("need_met_exactly", 0),
        "note": "need_met_exactly counts (composition, n) whose pull count equalled the catalogue need without slack "
                "(shows the bounds are tight, not generous)",
    }
