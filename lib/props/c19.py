"""C19 — online mode contains the program.

Executions of execute_vyxal(..., online_mode=True) are observed by
  * M-IO: sys.stdout recorder and fd 1 (host stdout must stay silent);
  * M-AUDIT: an audit-event trace checker (compile / exec / open / os.system /
    subprocess.Popen / socket.*): tainted user text may be compiled only by the
    literal parser (filename '<unknown>') or as a return value of the transpiler
    with the taint inside constants;
  * a canary bound in builtins (VYTAINT): any call means user text ran as Python;
  * the C01 reference model for the expected output record;
  * failpoints (sys.monitoring PY_START callbacks that raise at the k-th call of a
    chosen element function) to exercise the error record.
A positive control runs the same payloads *offline* (where evaluation is the
documented behaviour) and requires the canary to fire: a blind monitor makes the
run inconclusive."""
from __future__ import annotations

import ast
import builtins
import os
import random
import sys

from lib import harness

ID = "C19"
LEVEL = "exploration"
RULE = (
    "three workloads run with online_mode=True: (1) G-struct programs whose output record is predicted by the reference model "
    "(all printing elements, implicit output, flags); (2) taint programs: Python-expression payloads with side effects placed in "
    "string literals and inputs and sent through E, † and Ė, printing and vectorised variants; (3) fault injection: the k-th "
    "call of a core element function raises. distinct_nontrivial = distinct (workload, program, inputs, flags, fault) whose run "
    "produced at least one monitor event"
)
ASSUMPTIONS = [
    "taint marker VYTAINT occurs in no repository identifier (checked at worker start)",
    "sympy-backed string overloads (∆Ė, ∆D …) are outside the property and not driven",
]
MIN_COUNTERS = {
    "online_runs": {"quick": 2000, "thorough": 40000},
    "audit_events": {"quick": 10000, "thorough": 200000},
    "record_compared": {"quick": 400, "thorough": 8000},
    "taint_runs": {"quick": 400, "thorough": 8000},
    "faults_fired": {"quick": 40, "thorough": 400},
    "control_canary_fired": {"quick": 5, "thorough": 5},
    "record_vs_offline_compared": {"quick": 100, "thorough": 100},
    "volume_record_chars": {"quick": 1000000, "thorough": 1000000},
    "type_print_runs": {"quick": 200, "thorough": 200},
    "type_print_recorded": {"quick": 150, "thorough": 150},
    "ctxname_runs": {"quick": 300, "thorough": 300},
    "odd_input_runs": {"quick": 200, "thorough": 200},
    "breakout_string_runs": {"quick": 100, "thorough": 100},
    "vyxal_text_breakout_runs": {"quick": 200, "thorough": 200},
}
UNIT_TIMEOUT = 150
MARK = "VYTAINT"

# one canary file per worker process: concurrent runs (selftest jobs, quick next to thorough) must not
# see each other's canaries
CANARY_FILE = os.path.join("/tmp", f"VYTAINT_canary_{os.getpid()}")

PAYLOADS = [
    "VYTAINT(1)",
    "[VYTAINT(2)]",
    "1+VYTAINT(3)",
    "(lambda:VYTAINT(4))()",
    "__import__('os').system('echo VYTAINT')",
    "open(%r,'w')" % CANARY_FILE,
    "__import__('subprocess').Popen(['echo','VYTAINT'])",
    "VYTAINT(5) or 7",
    "(VYTAINT(6),)",
    "{'a':VYTAINT(7)}",
    "print('VYTAINT')",
    "exec('VYTAINT(8)')",
]
STATEMENT_PAYLOADS = ["import os; VYTAINT(9)", "VYTAINT(10)\nVYTAINT(11)", "x = VYTAINT(12)"]

STATE = {"armed": False, "events": [], "canary": [], "transpiled": set(), "installed": False,
         "fault": None, "fault_fired": 0}


class InjectedFault(Exception):
    pass


def _audit(event, args):
    if not STATE["armed"]:
        return
    try:
        if event == "compile":
            src, fn = args[0], args[1]
            if isinstance(src, bytes):
                src = src.decode("utf-8", "replace")
            if isinstance(src, ast.AST):
                STATE["events"].append(("compile-ast", _ast_taint(src), str(fn)))
            elif isinstance(src, str):
                STATE["events"].append(("compile", src if MARK in src else None, str(fn)))
            else:
                STATE["events"].append(("compile", None, str(fn)))
        elif event == "exec":
            STATE["events"].append(("exec", getattr(args[0], "co_filename", "?"), None))
        elif event in ("open",):
            p = args[0]
            if isinstance(p, (str, bytes)) and MARK in (p if isinstance(p, str) else p.decode("utf-8", "replace")):
                STATE["events"].append(("open-tainted", str(p), None))
        elif event in ("os.system", "subprocess.Popen", "os.posix_spawn", "os.exec", "os.spawn", "os.fork") \
                or event.startswith("socket.") and event in ("socket.connect", "socket.bind", "socket.sendto"):
            STATE["events"].append(("escape", event, str(args)[:200]))
    except Exception:  # noqa
        pass


_re_ident = __import__("re").compile(r"^(VAR_|_lambda_)[A-Za-z0-9_]*$")


def _ast_taint(tree):
    """Does the marker occur in an AST outside string constants?"""
    for node in ast.walk(tree):
        for f in ("id", "attr", "arg", "name"):
            v = getattr(node, f, None)
            # an identifier made of the transpiler's own prefix and the letters / digits of a program-chosen
            # name is what the generated code is allowed to contain; the marker as a name of its own is not
            if isinstance(v, str) and MARK in v and not _re_ident.match(v):
                return True
    return False


def _canary(*a):
    STATE["canary"].append(a)
    return 0


def _fault_cb(code, offset):
    f = STATE["fault"]
    if f is None or code is not f["code"]:
        return sys.monitoring.DISABLE
    f["n"] += 1
    if f["n"] == f["k"]:
        STATE["fault_fired"] += 1
        raise InjectedFault(f"injected fault in {f['name']} call {f['k']}")
    return None


FAULT_TOOL = 4
FAULT_FUNCS = ["add", "subtract", "multiply", "less_than", "greater_than", "equals", "increment", "decrement",
               "negate", "length", "vy_map", "vy_filter", "vy_str", "vy_print", "boolify", "vectorise"]


def setup_worker():
    from lib import env, structrun

    structrun.install()
    if STATE["installed"]:
        return
    main = env.bind()
    import vyxal.elements as E
    import vyxal.transpile as T

    for mod in (E, T, main):
        for name in dir(mod):
            if MARK in name:
                raise RuntimeError("taint marker collides with repository identifier " + name)
    builtins.VYTAINT = _canary
    sys.addaudithook(_audit)
    orig = T.transpile

    def transpile(*a, **kw):
        out = orig(*a, **kw)
        if STATE["armed"] and isinstance(out, str):
            STATE["transpiled"].add(out)
        return out

    transpile.__wrapped__ = orig
    for name, mod in list(sys.modules.items()):
        if name.startswith("vyxal") and mod is not None and getattr(mod, "transpile", None) is orig:
            mod.transpile = transpile
    try:
        sys.monitoring.use_tool_id(FAULT_TOOL, "verif-fault")
    except ValueError:
        pass
    sys.monitoring.register_callback(FAULT_TOOL, sys.monitoring.events.PY_START, _fault_cb)
    STATE["installed"] = True


def units(tier, seed):
    q = tier == "quick"
    u = [{"kind": "control", "seed": seed}]
    for i in range(len(VOLUME)):
        u.append({"kind": "volume", "i": i})
    u.append({"kind": "types"})
    u.append({"kind": "odd_inputs"})
    u.append({"kind": "ctxnames", "part": 0})
    u.append({"kind": "ctxnames", "part": 1})
    for i in range(48 if q else 480):
        u.append({"kind": "model", "seed": seed, "idx": i, "n": 60 if q else 100})
    for i in range(24 if q else 240):
        u.append({"kind": "taint", "seed": seed, "idx": i, "n": 40 if q else 60})
    for i in range(64 if q else 640):
        u.append({"kind": "fault", "seed": seed, "idx": i, "n": 40})
    return u


# ---------------------------------------------------------------------------
def run_online(text, inputs, flags, fault=None, online=True, timeout=10):
    """One monitored execution. Returns dict of observations."""
    from lib import structrun

    STATE.update(events=[], canary=[], transpiled=set(), fault=None)
    if fault:
        import vyxal.elements as E

        fn = getattr(E, fault["name"], None)
        if fn is not None and hasattr(fn, "__code__"):
            STATE["fault"] = {"code": fn.__code__, "k": fault["k"], "n": 0, "name": fault["name"]}
            sys.monitoring.set_local_events(FAULT_TOOL, fn.__code__, sys.monitoring.events.PY_START)
    fired0 = STATE["fault_fired"]
    for p in (CANARY_FILE,):
        try:
            os.unlink(p)
        except OSError:
            pass
    STATE["armed"] = True
    try:
        got = structrun.run_impl(text, inputs, flags, online=online, timeout=timeout, observe_stack=False)
    finally:
        STATE["armed"] = False
        if STATE["fault"]:
            try:
                sys.monitoring.set_local_events(FAULT_TOOL, STATE["fault"]["code"], 0)
            except Exception:  # noqa
                pass
            STATE["fault"] = None
    got["events"] = STATE["events"]
    got["canary"] = list(STATE["canary"])
    got["transpiled"] = STATE["transpiled"]
    got["fault_fired"] = STATE["fault_fired"] - fired0
    got["canary_file"] = os.path.exists(CANARY_FILE)
    if got["canary_file"]:
        try:
            os.unlink(CANARY_FILE)
        except OSError:
            pass
    return got


def containment_violations(got, text):
    """Trace checker over the audit events of one online run."""
    out = []
    if got["stdout"] or got["fd1"]:
        out.append(("host-stdout", f"host stdout received {(got['stdout'] or got['fd1'])[:80]!r}"))
    if got["canary"] or got["canary_file"]:
        out.append(("canary", f"canary fired {got['canary'][:2]!r} file={got['canary_file']}"))
    for ev in got["events"]:
        if ev[0] == "compile" and ev[1] is not None:
            src, fn = ev[1], ev[2]
            if fn == "<unknown>":
                continue  # ast.parse / literal_eval: the allowed mechanism
            if src in got["transpiled"]:
                try:
                    if _ast_taint(ast.parse(src)):
                        out.append(("taint-in-generated-code", f"taint outside constants in transpiled code: {src[:120]!r}"))
                except SyntaxError:
                    pass
                continue
            out.append(("tainted-compile", f"user text compiled as Python (filename {fn!r}): {src[:100]!r}"))
        elif ev[0] == "compile-ast" and ev[1]:
            out.append(("tainted-compile", "AST containing tainted names compiled"))
        elif ev[0] in ("open-tainted", "escape"):
            out.append(("escape", f"{ev[0]} {ev[1]} {ev[2] or ''}"))
    if got["error"] and not got["error"].startswith("SystemExit"):
        if got["probe_calls"] and not got["exec_raised"]:
            # the transpiled program itself returned normally: raised while the implicit output is produced
            out.append(("error-after-program-propagates", f"{got['error']} left execute_vyxal (raised after the program body finished)"))
        else:
            out.append(("error-propagates", f"{got['error']} left execute_vyxal"))
    return out


def add_violation(res, mech, what, unit, **kw):
    if len(res["violations"]) < 20:
        w = {"mechanism": mech, "what": what[:700], "unit": unit}
        w.update(kw)
        res["violations"].append(w)
    else:
        res["counters"]["violations_not_listed"] = res["counters"].get("violations_not_listed", 0) + 1


def lit(s):
    return "`" + s.replace("\\", "\\\\").replace("`", "\\`") + "`"


# large outputs: the record must take everything, whatever its size (program, inputs, flags, expected record)
def _volume_cases():
    line = "x" * 40
    big = []
    big.append(("6000(`" + line + "`,)", [], "", (line + "\n") * 6000))
    big.append(("9000(`" + line + "`₴)", [], "O", line * 9000))
    big.append(("60000ɾ,", [], "", "⟨ " + " | ".join(str(i) for i in range(1, 60001)) + " ⟩\n"))
    big.append(("40000ɾ", [], "j", "\n".join(str(i) for i in range(1, 40001)) + "\n"))
    big.append(("3000(n…_)", [], "O", "".join(f"{i}\n" for i in range(1, 3001))))
    big.append(("`" + line + "`5000*", [], "", line * 5000 + "\n"))
    big.append(("4000(`" + line + "`¨,)", [], "O", (line + " ") * 4000))
    return big


VOLUME = _volume_cases()

# values of every kind the interpreter can print (exact and inexact numbers, strings, nested / lazy lists,
# functions) x every printing path: nothing may reach the host, something must reach the record
VALUE_SNIPPETS = ["5", "1 3/", "2√", "ki", "ke", "kg", "2√1 3/\"", "`str`", "¤", "⟨⟩", "⟨1|`a`|⟨2√⟩⟩", "3ɾ", "3ɾƛ2√;", "3ɾ2√+",
                  "λ1;", "⟨λ2;|3⟩", "⟨λ`x`,2;⟩", "⟨3ɾƛ…;|4⟩", "3ɾƛ…;w", "⟨λ`y`₴5;|⟨λ7,8;⟩⟩", "λ`z`,9;", "3ɾƛ`p`₴;", "1u/", "2 0.5e", "5∆s", "3∆L", "1°2", "5N√", "kn", "3ɾ:Z", "Þ∞3Ẏ", "5 7ḋ", "`a`3*", "10 3%"]
PRINTERS = [(",", ""), (",Q", ""), (":,Q,", ""), ("₴", "O"), ("…_", "O"), ("¨,", "O"), ("¨…_", "O"), ("", ""), ("", "j"), ("", "W"), ("", "s"), ("w,", ""),
            ("wƛ;,", ""), (":,,", ""), ("S,", ""), ("q,", "")]


def taint_programs(r):
    p = r.choice(PAYLOADS + STATEMENT_PAYLOADS)
    q = r.choice(PAYLOADS)
    forms = [
        (lit(p) + "E", []), (lit(p) + "†", []), (lit(p) + "Ė", []), (lit(p) + ",", []),
        ("?E", [p]), ("?†", [p]), ("?Ė", [p]), ("?,", [p]), ("?" + lit(q) + "+E", [p]),
        ("⟨" + lit(p) + "|" + lit(q) + "⟩E", []), ("⟨" + lit(p) + "⟩†", []),
        (lit(p) + ":E$†", []), (lit(p) + "wvE", []), ("??\"E", [p, q]),
        ("λ" + lit(p) + "E;†", []), (lit(p) + "…E,", []), (lit(p) + "₴", []), (lit(p) + "¨,", []),
        ("3(" + lit(p) + "E_)", []), (lit(p) + "S E", []), ("?" + "E" * 3, [p]),
        ("□E", [p, q]), ("⁰E ¹E", [p, q]), (lit(p) + "q E", []), (lit(p) + "øDE" if MARK not in "" else "", []),
        ("@f|" + lit(p) + "E;@f;", []), (lit(p) + "1ßE", []),
    ]
    text, inputs = r.choice([f for f in forms if f[0]])
    # what lies below on the stack is a dimension of its own: 0-3 harmless entries first
    text = r.choice(["", "", "1 ", "1 2 ", "`a` ⟨1⟩ 3 ", "4 5 6 7 "]) + text
    flags = r.choice(["", "", "D", "j", "W", "o"])
    return text, inputs, flags


def run_unit(unit):
    from lib.gen import struct as G
    from lib.models.structure import Model, Skip
    from vyxal.lexer import tokenise

    res = {"evals": 0, "keys": [], "violations": [], "inconclusive": [], "skips": {}, "counters": {}, "samples": []}
    c = res["counters"]
    k = unit["kind"]

    # state an earlier *offline* run leaves behind in the same process (caches, memoised choices made on the
    # first context seen) must not weaken the online runs that follow: every unit starts with two offline runs
    # that evaluate an input and a string
    if k != "control":
        for t0, i0 in (("?E", ["1+1"]), ("`2`E ?", ["[1,2]"])):
            try:
                run_online(t0, i0, "", online=False, timeout=5)
                c["offline_runs_before_online"] = c.get("offline_runs_before_online", 0) + 1
            except Exception:  # noqa
                pass

    def observe(got):
        c["online_runs"] = c.get("online_runs", 0) + 1
        c["audit_events"] = c.get("audit_events", 0) + len(got["events"])
        res["evals"] += 1

    if k == "control":
        # positive control, offline: evaluation of user text is the documented behaviour there
        for p in PAYLOADS[:4] + [PAYLOADS[7]]:
            got = run_online(lit(p) + "E", [], "", online=False)
            if got["canary"]:
                c["control_canary_fired"] = c.get("control_canary_fired", 0) + 1
            if any(e[0] == "compile" and e[1] for e in got["events"]):
                c["control_tainted_compile_seen"] = c.get("control_tainted_compile_seen", 0) + 1
        for p in PAYLOADS[:3]:
            got = run_online("?E", [p], "", online=False)
            if got["canary"]:
                c["control_canary_fired"] = c.get("control_canary_fired", 0) + 1
        res["evals"] += 8
        res["keys"] += [harness.short_hash(["control", i]) for i in range(8)]
        return res

    if k == "volume":
        text, inputs, flags, expect = VOLUME[unit["i"]]
        got = run_online(text, inputs, flags, timeout=60)
        if got["error"] in ("watchdog", "MemoryError"):
            res["inconclusive"].append({"why": got["error"], "program": text[:60]})
            return res
        observe(got)
        c["volume_runs"] = c.get("volume_runs", 0) + 1
        c["volume_record_chars"] = c.get("volume_record_chars", 0) + len((got["record"] or {1: ""})[1])
        res["keys"].append(harness.short_hash(["volume", unit["i"]]))
        bad = containment_violations(got, text)
        rec = got["record"] or {1: "", 2: ""}
        if rec[1] != expect:
            n = next((j for j, (a, b) in enumerate(zip(rec[1], expect)) if a != b), min(len(rec[1]), len(expect)))
            bad.append(("record-differs", f"output record has {len(rec[1])} characters, expected {len(expect)}; first difference at {n}"))
        for mech, what in bad:
            add_violation(res, mech, f"program {text[:70]!r}… flags={flags!r}: {what}", dict(unit), program=text[:200])
        res["samples"].append({"mode": "volume", "program": text[:60], "record_chars": len(rec[1])})
        return res
    if k == "types":
        for snip in VALUE_SNIPPETS:
            for pr, flags in PRINTERS:
                text = snip + " " + pr
                got = run_online(text, [], flags, timeout=10)
                if got["error"] in ("watchdog", "MemoryError"):
                    continue
                observe(got)
                c["type_print_runs"] = c.get("type_print_runs", 0) + 1
                res["keys"].append(harness.short_hash(["types", text, flags]))
                rec = got["record"] or {1: "", 2: ""}
                bad = [b for b in containment_violations(got, text) if b[0] != "error-after-program-propagates" or True]
                if rec[1]:
                    c["type_print_recorded"] = c.get("type_print_recorded", 0) + 1
                # "everything it prints is collected": the record is what the same program prints offline
                quits = str(got["error"]).startswith("SystemExit")  # the quit element: what was printed before counts
                if (not got["error"] or quits) and not rec[2]:
                    off = run_online(text, [], flags, online=False, timeout=10)
                    if str(off["error"]) == str(got["error"]):
                        c["record_vs_offline_compared"] = c.get("record_vs_offline_compared", 0) + 1
                        import re as _re

                        norm = lambda t: _re.sub(r"_lambda_[0-9a-f]{32}", "_lambda_ID", t)  # noqa: E731 (random per transpilation)
                        if norm(off["stdout"]) != norm(rec[1]):
                            bad.append(("record-differs-from-offline-output",
                                        f"online output record {rec[1][:120]!r}, the same program offline prints {off['stdout'][:120]!r}"))
                for mech, what in bad:
                    add_violation(res, mech, f"program {text!r} flags={flags!r}: {what}",
                                  {"kind": "one", "mode": "taint", "text": text, "inputs": [], "flags": flags, "fault": None},
                                  program=text)
        res["samples"].append({"mode": "types", "snippets": len(VALUE_SNIPPETS), "printers": len(PRINTERS)})
        return res
    if k == "odd_inputs":
        # inputs that are valid Python literals but not Vyxal values, malformed literals, huge literals, and
        # string bodies shaped to break out of the generated string literal
        odd = ["None", "...", "True", "[1, None]", "1e999", "-1e999", "{1: 2}", "{1, 2}", "b'x'", "1j", "(1, 2)", "()",
               "[[[[[[[[[[1]]]]]]]]]]", "''", '""', "[", "]", "1_000", "0x10", "0b2", "1.", ".5", "1e5", "nan", "inf",
               "[1, [2, None], 3]", "{'a': [1, None]}", "1" * 400, "[" + "1," * 300 + "1]", "'\\'", "'a\nb'", "\\", "`",
               "[1,2", "1 2", "lambda: 1", "f''", "f'{1}'", "__debug__", "Ellipsis", "NotImplemented"]
        bodies = ["?", "?,", "?E", "??+", "?L", "?w,", "□", "?:Ė"]
        for inp in odd:
            for body in bodies:
                got = run_online(body, [inp], "", timeout=5)
                if got["error"] in ("watchdog", "MemoryError"):
                    continue
                observe(got)
                c["odd_input_runs"] = c.get("odd_input_runs", 0) + 1
                res["keys"].append(harness.short_hash(["odd", body, inp]))
                for mech, what in containment_violations(got, body):
                    add_violation(res, mech, f"program {body!r} input={inp[:60]!r}: {what}",
                                  {"kind": "one", "mode": "taint", "text": body, "inputs": [inp], "flags": "", "fault": None},
                                  program=body)
        # break-out shaped string literals, written raw (not through lit(), which would escape them)
        BS, DQ, BQ = chr(92), chr(34), chr(96)
        for pre in (BS + DQ, BS + BS + DQ, DQ, BS + BS + BS + DQ, BS + "'", BS + "n" + DQ, BS):
            for tail in (");VYTAINT(20)#", ")" + chr(10) + "VYTAINT(21)#", "+str(VYTAINT(22)))#", ");print('VYTAINT')#"):
                for wrap in ("{}", "{},", "{}E", "3({}_)", "λ{};†", "⟨{}⟩", "?Ė"):
                    s_lit = BQ + pre + tail + BQ
                    text = wrap.replace("{}", s_lit)
                    inputs = [s_lit] if wrap == "?Ė" else []
                    got = run_online(text, inputs, "", timeout=5)
                    if got["error"] in ("watchdog", "MemoryError"):
                        continue
                    observe(got)
                    c["breakout_string_runs"] = c.get("breakout_string_runs", 0) + 1
                    res["keys"].append(harness.short_hash(["breakout", text, inputs]))
                    for mech, what in containment_violations(got, text):
                        add_violation(res, mech, f"program {text!r} inputs={inputs}: {what}",
                                      {"kind": "one", "mode": "taint", "text": text, "inputs": inputs, "flags": "", "fault": None},
                                      program=text)
        # user text that is Vyxal source (run with Ė online, or given as the program itself) with Python-shaped
        # text in every position where program-chosen text becomes part of an identifier: whatever the Vyxal
        # means, the Python in it must never run
        from lib.gen import payloads as PL

        pyexprs = ["x if VYTAINT(30) else x", "x(VYTAINT(31))", "x;VYTAINT(32)", "x=VYTAINT(33)", "x[VYTAINT(34)]",
                   "x,y=VYTAINT(35),1", "x" + chr(10) + "VYTAINT(36)", "x or VYTAINT(37)", "x.y(VYTAINT(38))",
                   "VYTAINT(39)", "x)(VYTAINT(40)", "x:=VYTAINT(41)"]
        for pos in PL.C18_NAME_POSITIONS:
            for wrapper in PL.C18_WRAPPERS:
                for px in pyexprs:
                    try:
                        vy = PL.c18_program(pos, wrapper, px)
                    except Exception:  # noqa
                        continue
                    for text, inputs in (("?Ė", [vy]), (vy, []), ("`" + vy.replace(BS, BS + BS).replace(BQ, BS + BQ) + "`Ė", [])):
                        got = run_online(text, inputs, "", timeout=5)
                        if got["error"] in ("watchdog", "MemoryError"):
                            continue
                        observe(got)
                        c["vyxal_text_breakout_runs"] = c.get("vyxal_text_breakout_runs", 0) + 1
                        res["keys"].append(harness.short_hash(["vybreakout", text, inputs]))
                        for mech, what in containment_violations(got, text):
                            if mech == "error-after-program-propagates":
                                continue
                            add_violation(res, mech, f"program {text!r} inputs={inputs}: {what}",
                                          {"kind": "one", "mode": "taint", "text": text, "inputs": inputs, "flags": "", "fault": None},
                                          program=text)
        res["samples"].append({"mode": "odd_inputs", "inputs": odd[:8]})
        return res
    if k == "ctxnames":
        # program-chosen variable names that coincide with attributes of the interpreter's context object
        from vyxal.context import Context

        names = sorted(a for a in vars(Context()) if a.replace("_", "").isalpha())
        names = names[unit["part"]::2]
        p = PAYLOADS[0]
        for name in names:
            for val in ("0", "1", "`x`", "⟨⟩"):
                pre = val + "→_" + name + " "
                for body, inputs in ((lit(p) + "E", []), (lit(p) + "†", []), ("?E", [p]), (lit(p) + ",", []), ("3ɾ,", [])):
                    text = pre + body
                    got = run_online(text, inputs, "", timeout=5)
                    if got["error"] in ("watchdog", "MemoryError"):
                        continue
                    observe(got)
                    c["ctxname_runs"] = c.get("ctxname_runs", 0) + 1
                    res["keys"].append(harness.short_hash(["ctxname", text]))
                    for mech, what in containment_violations(got, text):
                        add_violation(res, mech, f"program {text!r} inputs={inputs}: {what}",
                                      {"kind": "one", "mode": "taint", "text": text, "inputs": inputs, "flags": "", "fault": None},
                                      program=text)
        res["samples"].append({"mode": "ctxnames", "names": names[:6]})
        return res
    if k == "one":
        cases = [unit]
    else:
        r = random.Random(f"C19/{k}/{unit['seed']}/{unit['idx']}")
        cases = []
        for _ in range(unit["n"]):
            if k == "model" or k == "fault":
                from lib.props.c01 import gen_case

                cfg = G.Cfg(p_print=0.2, p_input=0.08)
                prog, inputs, flags = gen_case(r, cfg)
                fault = None
                if k == "fault":
                    fault = {"name": r.choice(FAULT_FUNCS), "k": r.choice([1, 1, 2, 3, 5, 8])}
                cases.append({"mode": k, "prog": prog, "inputs": inputs, "flags": flags, "fault": fault})
            else:
                text, inputs, flags = taint_programs(r)
                cases.append({"mode": "taint", "text": text, "inputs": inputs, "flags": flags, "fault": None})

    for case in cases:
        mode = case["mode"]
        replay = dict(case)
        replay["kind"] = "one"
        if mode in ("model", "fault"):
            prog, inputs, flags = case["prog"], case["inputs"], case["flags"]
            text, toks = G.serialise(prog)
            if not G.check_tokens(text, toks, tokenise):
                continue
            m = Model(inputs=inputs, flags=flags)
            skipped = None
            try:
                m.run_program(prog)
            except Skip as s:
                skipped = s.reason
                if skipped in ("fuel", "recursion-depth") or skipped.startswith("size"):
                    res["skips"][skipped] = res["skips"].get(skipped, 0) + 1
                    continue
            except RecursionError:
                continue
            got = run_online(text, [repr(x) for x in inputs], flags, fault=case["fault"], timeout=5 if skipped else 10)
            if got["error"] in ("watchdog", "MemoryError"):
                if not skipped:
                    res["inconclusive"].append({"why": got["error"], "program": text})
                continue
            observe(got)
            res["keys"].append(harness.short_hash([mode, text, inputs, flags, case["fault"]]))
            bad = containment_violations(got, text)
            rec = got["record"] or {1: "", 2: ""}
            if mode == "fault" and got["fault_fired"]:
                c["faults_fired"] = c.get("faults_fired", 0) + 1
                lazy_print = bool(got["error"]) and "InjectedFault" in got["error"]
                if lazy_print:
                    c["faults_escaped"] = c.get("faults_escaped", 0) + 1
                elif "InjectedFault" not in rec[2]:
                    # the program may legitimately swallow nothing: every element error must reach the error record
                    bad.append(("error-not-recorded", f"injected fault fired but the error record is {rec[2][-120:]!r}"))
                else:
                    c["faults_recorded"] = c.get("faults_recorded", 0) + 1
            elif not skipped and not got["error"] and mode == "model":
                c["record_compared"] = c.get("record_compared", 0) + 1
                expect = "".join(m.out)
                if rec[1] != expect:
                    bad.append(("record-differs", f"output record {rec[1]!r} != model {expect!r}"))
                if rec[2]:
                    bad.append(("spurious-error-record", f"error record not empty: {rec[2][-160:]!r}"))
            elif not skipped and got["error"] and mode == "model":
                bad.append(("unexpected-exit", f"{got['error']}; error record {rec[2][-200:]!r}"))
            for mech, what in bad:
                add_violation(res, mech, f"program {text!r} inputs={inputs} flags={flags!r} fault={case['fault']}: {what}",
                              replay, program=text, fault_fired=got["fault_fired"])
            if len(res["samples"]) < 2:
                res["samples"].append({"mode": mode, "program": text, "flags": flags, "record": rec[1][:60],
                                       "audit_events": len(got["events"]), "fault": case["fault"]})
        else:
            text, inputs, flags = case["text"], case["inputs"], case["flags"]
            got = run_online(text, inputs, flags, timeout=4)
            if got["error"] in ("watchdog", "MemoryError"):
                # payload text run as *Vyxal* code by Ė may loop; containment monitors still saw the run
                res["skips"]["taint-program-did-not-terminate"] = res["skips"].get("taint-program-did-not-terminate", 0) + 1
                for mech, what in containment_violations(dict(got, error=None), text):
                    add_violation(res, mech, f"program {text!r} inputs={inputs} flags={flags!r}: {what}", replay, program=text)
                continue
            observe(got)
            c["taint_runs"] = c.get("taint_runs", 0) + 1
            res["keys"].append(harness.short_hash(["taint", text, inputs, flags]))
            for mech, what in containment_violations(got, text):
                add_violation(res, mech, f"program {text!r} inputs={inputs} flags={flags!r}: {what}", replay, program=text)
            if len(res["samples"]) < 2:
                res["samples"].append({"mode": "taint", "program": text, "inputs": inputs,
                                       "audit": [e[0] + ":" + str(e[2]) for e in got["events"][:6]]})
    return res


def classify(w):
    if w.get("mechanism") == "error-after-program-propagates":
        return "C19-error-during-implicit-output-propagates"
    return None
