"""C20 — every element is typeable in one byte per character and reachable.

Finite; decided by executing the real functions (code page conversion, the
lexer, the parser, the transpiler on every key) on the whole domain. The one
declared static step (duplicate keys in the dict literal leave no trace in any
execution) reads the table source with `ast`, and is cross-checked dynamically
by looking for element functions no template references."""
from __future__ import annotations

import json

import ast
import os
import sys
import re

ID = "C20"
LEVEL = "exploration"
DESIGN_REF = "DESIGN.md §1 C20"
RULE = (
    "exhaustive: 256 byte values, all 65 536 two-byte strings through both code-page "
    "converters; every key of the element table, the modifier table, the parser's modifier "
    "lists and structure table through tokenise/parse/transpile; every entry of elements.yaml "
    "against the table arity; every byte string of length <= 2 written to a program file in the code-page encoding "
    "(flag v) and as UTF-8 text and run through execute_vyxal with the transpiler's input recorded; every element of "
    "arity 0..3 run directly and through the modifiers ß, ₌, ₍ (both operand slots, monadic and dyadic partner) and ~ on four "
    "kinds of arguments (each operand takes as many entries as its own arity, whenever the direct run leaves one result). distinct_nontrivial counts distinct (obligation kind, subject) "
    "pairs actually executed; a two-byte string is non-trivial when its bytes differ."
)
ASSUMPTIONS = [
    "duplicate-key detection reads vyxal/elements.py with ast (declared static step)",
    "elements.yaml is read by a line-based subset parser (no yaml library offline)",
]
MIN_COUNTERS = {"roundtrip_2byte": 65536, "keys_tokenised": 300, "yaml_entries": 300, "keys_in_context": 3000,
                "program_files_run": 120000, "arity_in_use_compared": 2000}

import string  # noqa: E402

# (text, token values it lexes to): a key written right after it must still be its own token
CONTEXT_PREFIXES = [
    ("→v", ["v"]), ("←v", ["v"]), ("→", [""]), ("12", ["12"]), ("`ab`", ["ab"]), ("‛ab", ["ab"]), ("\\c", ["c"]),
    ("⁺a", ["a"]), ("«ab«", ["ab"]), ("»ab»", ["ab"]), ("kA", ["kA"]), ("+", ["+"]), ("]", ["]"]), ("#c\n", []),
]
STRUCT_SYNTAX = set("[](){}@;λƛ'µ⟨⟩|")  # grouped by the parser, not looked up


def units(tier, seed):
    u = [{"kind": "codepage1"}]
    for hi in range(0, 256, 16):
        u.append({"kind": "codepage2", "lo": hi, "hi": hi + 16})
    u += [{"kind": "keys"}, {"kind": "dupes"}, {"kind": "yaml"}, {"kind": "parser_lists"}]
    # the running system, not only its tables: program files in both encodings reach the lexer as the
    # code-page text they encode; an element used through a modifier consumes what its arity says
    for hi in range(0, 256, 16):
        u.append({"kind": "filebytes", "lo": hi, "hi": hi + 16})
    for part in range(4):
        u.append({"kind": "arity_in_use", "part": part, "of": 4})
    return u


def setup_worker():
    pass


def V(kind, what, **kw):
    d = {"mechanism": kind, "what": what, "unit": {"kind": kw.pop("unit_kind", kind)}}
    d.update(kw)
    return d


def run_unit(unit):
    from vyxal import encoding, lexer, parse, elements as E
    from vyxal.transpile import transpile

    res = {"evals": 0, "keys": [], "violations": [], "counters": {}, "samples": [], "distinct": 0}
    c = res["counters"]
    k = unit["kind"]
    cp = encoding.codepage

    if k == "codepage1":
        c["codepage_len"] = len(cp)
        if len(cp) != 256:
            res["violations"].append(V("codepage", f"code page has {len(cp)} entries", unit_kind=k))
        if len(set(cp)) != len(cp):
            dup = sorted({ch for ch in cp if cp.count(ch) > 1})
            res["violations"].append(V("codepage", f"code page characters not distinct: {dup!r}", unit_kind=k, subject=dup))
        for b in range(min(256, len(cp))):
            res["evals"] += 1
            c["roundtrip_1byte"] = c.get("roundtrip_1byte", 0) + 1
            try:
                s = encoding.vyxal_to_utf8(bytes([b]))
                back = encoding.utf8_to_vyxal(s)
            except Exception as e:  # noqa - a converter that raises on a byte value is not a bijection on 0..255
                res["violations"].append(V("codepage", f"byte {b}: converting raises {type(e).__name__}: {e}", unit_kind=k, subject=b))
                continue
            if len(s) != 1 or back != chr(b):
                res["violations"].append(V("codepage", f"byte {b} -> {s!r} -> {back!r}", unit_kind=k, subject=b))
        # text -> bytes -> text for every code-page character
        for ch in set(cp):
            res["evals"] += 1
            try:
                enc = encoding.utf8_to_vyxal(ch)
                dec = encoding.vyxal_to_utf8([ord(x) for x in enc])
            except Exception as e:  # noqa
                res["violations"].append(V("codepage", f"char {ch!r}: converting raises {type(e).__name__}: {e}", unit_kind=k, subject=ch))
                continue
            if dec != ch:
                res["violations"].append(V("codepage", f"char {ch!r} -> {enc!r} -> {dec!r}", unit_kind=k, subject=ch))
        res["distinct"] = 256
        res["samples"].append({"byte": 0x41, "char": encoding.vyxal_to_utf8(bytes([0x41]))})
    elif k == "codepage2":
        n = 0
        for a in range(unit["lo"], unit["hi"]):
            for b in range(256):
                bs = bytes([a, b])
                n += 1
                try:
                    s = encoding.vyxal_to_utf8(bs)
                    back = encoding.utf8_to_vyxal(s)
                except Exception as e:  # noqa
                    s, back = f"raises {type(e).__name__}: {e}", None
                if back != chr(a) + chr(b) or len(s) != 2:
                    res["violations"].append(V("codepage", f"bytes {list(bs)} -> {s!r} -> {back!r}", unit_kind="codepage1", subject=list(bs)))
                    if len(res["violations"]) > 5:
                        break
        res["evals"] = n
        c["roundtrip_2byte"] = n
        res["distinct"] = n - (unit["hi"] - unit["lo"])
        res["unit"] = unit
    elif k == "filebytes":
        import shutil
        import tempfile

        import vyxal.main as M

        class _Captured(BaseException):
            pass

        got = []

        def recorder(code, *a, **kw):
            got.append(code)
            raise _Captured()

        d = tempfile.mkdtemp(prefix="verif-c20-")
        orig = M.transpile
        M.transpile = recorder
        n = 0
        try:
            path = os.path.join(d, "prog")
            strings = [bytes([a]) for a in range(unit["lo"], unit["hi"])]
            strings += [bytes([a, b]) for a in range(unit["lo"], unit["hi"]) for b in range(256)]
            for bs in strings:
                want = "".join(cp[b] for b in bs)
                for mode in ("v", "utf8"):
                    if mode == "utf8" and ("\r" in want):
                        continue
                    with open(path, "wb") as f:
                        f.write(bs if mode == "v" else want.encode("utf-8"))
                    got.clear()
                    try:
                        M.execute_vyxal(path, "v" if mode == "v" else "", [])
                    except _Captured:
                        pass
                    except SystemExit:
                        pass
                    n += 1
                    if got != [want]:
                        if len(res["violations"]) < 6:
                            res["violations"].append(V(
                                "program_file_text", f"program file with bytes {list(bs)} ({'code-page' if mode == 'v' else 'UTF-8'} "
                                f"encoding) reached the transpiler as {got!r}, its text is {want!r}",
                                unit_kind=k, subject=list(bs), lo=unit["lo"], hi=unit["hi"]))
        finally:
            M.transpile = orig
            shutil.rmtree(d, ignore_errors=True)
        res["evals"] = n
        c["program_files_run"] = n
        res["distinct"] = n
        res["violations"] = [dict(v, unit=unit) for v in res["violations"]]
    elif k == "arity_in_use":
        from lib import env, values
        from lib.worker import Watchdog, watchdog

        whole_stack = {"W", "^", "!", "„", "‟", "Ȯ", "†", "¨ẇ", "Ė"}
        # elements that read the context variable see the function's own context when called: left out
        # ... and so are the clock / calendar constants (two runs of one program differ when the second ticks)
        keys = [key for key in E.elements if key not in whole_stack and 0 <= E.elements[key][1] <= 3
                and "context_values" not in E.elements[key][0] and "datetime" not in E.elements[key][0]
                and "time." not in E.elements[key][0]]
        import random as _random
        def run(prog, stack):
            """final stack (canonical) of a normally completed run, else None"""
            try:
                with watchdog(3):
                    _random.seed(20)  # random-choice elements draw the same in every run
                    r = env.run_text(prog, stack=[values.from_spec(x) for x in stack])
                    if r.error is not None:
                        return None
                    out = values.canon_loose(r.stack, 400)
                    return None if _has_tag(out) else out
            except (Watchdog, MemoryError, RecursionError):
                return None
            except SystemExit:  # the quit element; exit() closes stdin
                try:
                    if sys.stdin is None or sys.stdin.closed:
                        sys.stdin = open(os.devnull)
                except Exception:  # noqa
                    pass
                return None
            except Exception:  # noqa
                return None

        def one_result(prog, stack, a):
            """the single result an element of arity a leaves in place of the top a entries, else None"""
            d = run(prog, stack)
            keep = len(stack) - a
            if not isinstance(d, list) or len(d) != keep + 1 or d[:keep] != values.canon_loose(stack[:keep], 400):
                return None
            return d

        def report(key, a, what):
            try:
                text = f"element {key!r} (arity {a}): {what}"[:900]
            except ValueError:  # integers beyond the interpreter's digit limit for str()
                text = f"element {key!r} (arity {a}): its use through a modifier leaves something else than its direct use (values too long to print)"
            res["violations"].append(V("arity_in_use", text, unit_kind=k, subject=key))

        partners = [("d", 1), ("+", 2)]
        for key in keys[unit["part"]::unit["of"]]:
            a = E.elements[key][1]
            bad = False
            for sent in ([10007, 10009, 10037, 10039], [3, 4, 5, 6], ["ab", "cd", "ef", "gh"], [[1, 2], [3], [4, 5], [6]]):
                if bad:
                    break
                n = len(sent)
                canon_sent = values.canon_loose(sent, 400)
                # (1) a called function receives its arguments in reversed order (the convention C11 is about), so
                # the direct run gets the top `a` entries reversed
                rsent = sent[:n - a] + sent[n - a:][::-1]
                d = one_result(key, rsent, a)
                if d is not None:
                    viab = run("ß" + key, sent + [1])
                    if viab is not None:
                        res["evals"] += 1
                        c["arity_in_use_compared"] = c.get("arity_in_use_compared", 0) + 1
                        res["keys"].append(f"inuse:ß:{key}:{type(sent[0]).__name__}")
                        if viab != d:
                            report(key, a, f"on {rsent!r} leaves {d!r}; called through the modifier ß with a true condition on {sent!r} it leaves {viab!r}")
                            bad = True
                            continue
                # (2) parallel application and retain: every operand takes as many entries as its own arity
                dk = one_result(key, sent, a)
                if dk is None:
                    continue
                rk = dk[-1]
                progs = []
                for pk, pa in partners:
                    dp = one_result(pk, sent, pa)
                    if dp is None:
                        continue
                    rp = dp[-1]
                    progs += [("₌" + key + pk, canon_sent[:n - pa] + [rk, rp]), ("₌" + pk + key, canon_sent[:n - a] + [rp, rk]),
                              ("₍" + key + pk, canon_sent[:n - pa] + [[rk, rp]]), ("₍" + pk + key, canon_sent[:n - a] + [[rp, rk]])]
                if a >= 2:
                    progs.append(("~" + key, canon_sent + [rk]))
                for prog, want in progs:
                    got = run(prog, sent)
                    if got is None:
                        continue
                    res["evals"] += 1
                    c["arity_in_use_compared"] = c.get("arity_in_use_compared", 0) + 1
                    res["keys"].append(f"inuse:{prog}:{type(sent[0]).__name__}")
                    if got != want:
                        report(key, a, f"program {prog!r} on {sent!r} leaves {got!r}; the operands applied directly to as many entries as "
                                       f"their arity give {want!r}")
                        bad = True
                        break
        res["violations"] = [dict(v, unit=unit) for v in res["violations"]][:12]
    elif k == "keys":
        names = [("element", key) for key in E.elements] + [("modifier", key) for key in E.modifiers]
        names += [("structure", ch) for ch in parse.OPENING_CHARACTERS + parse.CLOSING_CHARACTERS]
        names += [("structure", parse.BREAK_CHARACTER), ("structure", parse.RECURSE_CHARACTER), ("structure", "|")]
        for kind, key in names:
            res["evals"] += 1
            res["keys"].append(f"{kind}:{key}")
            bad = [ch for ch in key if ch not in cp]
            if bad:
                res["violations"].append(V("key_not_in_codepage", f"{kind} key {key!r} uses {bad!r} outside the code page", unit_kind=k, subject=key))
            toks = lexer.tokenise(key)
            c["keys_tokenised"] = c.get("keys_tokenised", 0) + 1
            ok = len(toks) == 1 and toks[0].name == lexer.TokenType.GENERAL and toks[0].value == key
            if not ok:
                res["violations"].append(V("key_not_one_token", f"{kind} key {key!r} lexes as {toks!r}", unit_kind=k, subject=key))
                continue
            # also in context: followed / preceded by other elements
            toks2 = lexer.tokenise("1" + key + " +")
            if [t.value for t in toks2] != ["1", key, " ", "+"]:
                res["violations"].append(V("key_not_one_token", f"{kind} key {key!r} in context lexes as {toks2!r}", unit_kind=k, subject=key))
            # ... and directly after every other kind of token (no separating space)
            for pre, pre_vals in CONTEXT_PREFIXES:
                if key[0] in "0123456789.°" and pre_vals[-1][-1:] in "0123456789.°":
                    continue
                if pre[0] in "→←" and (key[0] in string.ascii_letters + "_"):
                    continue  # ASCII letters and _ continue a variable name by definition
                toks3 = lexer.tokenise(pre + key)
                c["keys_in_context"] = c.get("keys_in_context", 0) + 1
                if [t.value for t in toks3] != pre_vals + [key]:
                    res["violations"].append(V("key_not_one_token", f"{kind} key {key!r} written directly after {pre!r} lexes as {toks3!r}", unit_kind=k, subject=key, after=pre))
                    break
            if kind == "element":
                # reachable: the parser must hand it to the table as an element
                tree = parse.parse(lexer.tokenise(key))
                c["keys_parsed"] = c.get("keys_parsed", 0) + 1
                generic = (
                    len(tree) == 1
                    and type(tree[0]).__name__ == "GenericStatement"
                    and tree[0].branches[0][0].value == key
                )
                if not generic:
                    res["violations"].append(V("key_shadowed_by_syntax", f"element key {key!r} is captured by syntax: parses as {tree!r}", unit_kind=k, subject=key))
                    continue
                code = transpile(key)
                tmpl = E.elements[key][0]
                if code.strip() != tmpl.strip() and tmpl.strip() not in code:
                    res["violations"].append(V("key_unreachable", f"element key {key!r} transpiles to something else than its template", unit_kind=k, subject=key))
        res["samples"].append({"key": "+", "tokens": repr(lexer.tokenise("+"))})
    elif k == "parser_lists":
        mods = set(parse.MONADIC_MODIFIERS) | set(parse.DYADIC_MODIFIERS) | set(parse.TRIADIC_MODIFIERS)
        lambda_mods = {"⁽", "‡", "≬"}  # lowered to lambdas by the parser itself
        for m in sorted(mods):
            res["evals"] += 1
            res["keys"].append(f"parsermod:{m}")
            if m not in lambda_mods and m not in E.modifiers:
                res["violations"].append(V("modifier_tables_disagree", f"parser modifier {m!r} has no entry in the modifier table", unit_kind=k, subject=m))
            if m in E.elements:
                res["violations"].append(V("key_shadowed_by_syntax", f"element key {m!r} is also a parser modifier", unit_kind=k, subject=m))
            # executing: the parser must group it with its operands
            ar = 1 if m in parse.MONADIC_MODIFIERS else 2 if m in parse.DYADIC_MODIFIERS else 3
            tree = parse.parse(lexer.tokenise(m + "+" * ar + "1"))
            c["modifiers_parsed"] = c.get("modifiers_parsed", 0) + 1
            if len(tree) != 2:
                res["violations"].append(V("modifier_tables_disagree", f"modifier {m!r} (arity {ar}) groups as {tree!r}", unit_kind=k, subject=m))
        for m in E.modifiers:
            res["evals"] += 1
            res["keys"].append(f"tablemod:{m}")
            if m not in mods:
                res["violations"].append(V("modifier_tables_disagree", f"modifier table entry {m!r} is in no parser modifier list", unit_kind=k, subject=m))
        for ch in parse.OPENING_CHARACTERS:
            res["evals"] += 1
            if ch in E.elements:
                res["violations"].append(V("key_shadowed_by_syntax", f"element key {ch!r} is a structure opener", unit_kind=k, subject=ch))
    elif k == "dupes":
        path = os.path.join(os.path.dirname(E.__file__), "elements.py")
        with open(path, encoding="utf-8") as f:
            tree = ast.parse(f.read())
        found = 0
        for node in ast.walk(tree):
            tgt = None
            if isinstance(node, ast.AnnAssign) and isinstance(node.target, ast.Name):
                tgt = node.target.id
            elif isinstance(node, ast.Assign) and len(node.targets) == 1 and isinstance(node.targets[0], ast.Name):
                tgt = node.targets[0].id
            if tgt in ("elements", "modifiers") and isinstance(node.value, ast.Dict):
                seen = {}
                for kn in node.value.keys:
                    if isinstance(kn, ast.Constant):
                        res["evals"] += 1
                        found += 1
                        if kn.value in seen:
                            res["violations"].append(V("duplicate_key", f"{tgt} table defines key {kn.value!r} twice (lines {seen[kn.value]} and {kn.lineno}); the first is unreachable", unit_kind=k, subject=kn.value))
                        seen[kn.value] = kn.lineno
                c[f"source_keys_{tgt}"] = len(seen)
                live = len(getattr(E, tgt))
                if live != len(seen):
                    c["source_vs_live_mismatch"] = c.get("source_vs_live_mismatch", 0) + 1
        res["distinct"] = found
        # dynamic cross-check: "Element X" docstring functions never referenced by any template
        referenced = set()
        for tmpl, _ in E.elements.values():
            referenced.update(re.findall(r"[A-Za-z_][A-Za-z_0-9]*", tmpl))
        c["template_identifiers"] = len(referenced)
    elif k == "yaml":
        path = os.path.join(os.environ.get("VERIF_REPO", "/repo"), "documents", "knowledge", "elements.yaml")
        entries = []
        cur = None
        with open(path, encoding="utf-8") as f:
            for line in f:
                m = re.match(r"^- (element|modifier):\s*(.*?)\s*$", line)
                if m:
                    cur = {"kind": m.group(1), "key": _unq(m.group(2))}
                    entries.append(cur)
                    continue
                m = re.match(r"^  arity:\s*(.*?)\s*$", line)
                if m and cur is not None and "arity" not in cur:
                    cur["arity"] = _unq(m.group(1))
        c["yaml_entries"] = len(entries)
        docs = {}
        for e in entries:
            if e["kind"] == "element":
                docs.setdefault(e["key"], []).append(e.get("arity", "NA"))
        for key, arities in docs.items():
            if key not in E.elements:
                continue  # syntax / literal markers documented as elements
            res["evals"] += 1
            res["keys"].append(f"yaml:{key}")
            table = E.elements[key][1]
            # a key documented twice (see the duplicate-key obligation) matches if one entry does
            doc = arities[0] if len(arities) == 1 else " or ".join(str(a) for a in arities)
            if not any(_arity_compatible(a, table) for a in arities):
                res["violations"].append(V("arity_mismatch", f"element {key!r}: documented arity {doc!r}, table arity {table}", unit_kind=k, subject=key, documented=doc, table=table))
        res["samples"].append(entries[10] if len(entries) > 10 else {})
    return res


def _has_tag(v):
    if isinstance(v, dict):
        return "x" in v or any(_has_tag(x) for x in v.values())
    if isinstance(v, list):
        return any(_has_tag(x) for x in v)
    return False


def _unq(s):
    s = s.strip()
    if len(s) >= 2 and s[0] == s[-1] and s[0] in "\"'":
        body = s[1:-1]
        if s[0] == '"':
            body = body.replace('\\"', '"').replace("\\\\", "\\")
        else:
            body = body.replace("''", "'")
        return body
    return s


def _arity_compatible(doc, table):
    doc = str(doc)
    if doc in ("NA", "*", "") or "*" in doc:
        return True
    nums = [int(x) for x in re.findall(r"\d+", doc)]
    if not nums:
        return True
    return table in nums


def classify(w):
    m = w.get("mechanism")
    s = w.get("subject")
    if m == "duplicate_key" and s == "ÞR":
        return "C20-duplicate-key-ÞR"
    if m == "key_shadowed_by_syntax" and s == "x":
        return "C20-x-entry-shadowed-by-recurse"
    if m == "arity_mismatch" and s in ("İ", "Ṡ", "…"):
        return "C20-documented-arity-" + s
    return None


def finalize(agg, tier):
    return {"exhaustive": True}
