"""C15 — compression and base-conversion codecs round-trip.

Everything goes through program text. For the three compression elements the
element is reached through the table by running the one-element program on
the stack [x]; the text it returns is then run as a program of its own
(dictionary compression on, the default) and must leave exactly [x]:

    øC  positive integers
    øc  strings over [a-z ] that do not start with a space
    øD  printable-ASCII strings (0x20..0x7E) without backslash / back-quote;
        additionally len(text) <= len('`' + s + '`')

For the base conversion pair the program `τ` is run on [n, b] (n >= 0, b >= 2
integers); the result must be a list of integers each in 0..b-1, and running
`β` on [that result, b] must leave exactly [n].

When a compressed literal does not come back, the witness is sharpened by
asking the tree's own tokenise / parse what they made of the literal text
(diagnosis only; the verdict is the stack comparison)."""
from __future__ import annotations

import itertools
import random

ID = "C15"
LEVEL = "exploration"
DESIGN_REF = "DESIGN.md §1 C15"
RULE = (
    "øC: integers 1..3 000 (quick) / 1..100 000 (thorough) exhaustively, b^k-1, b^k, b^k+1 for b=255 "
    "(k<=130) and b in {2,10,16,27,254,256} up to 10^120, log-uniform random integers to 10^120 (boundary "
    "values supplied both as Python ints and as the sympy Integers number literals produce, a share of "
    "the others as sympy Integers); øc: every string over [a-z ] of length <=2 (quick) / "
    "<=3 (thorough) not starting with a space, the strings whose base-27 value is 255^k+d or 27^k+d "
    "(length <= 80), random strings to length 80 (space-heavy and letter-heavy), and the empty string; "
    "øD: every 1- and 2-character string over the 93 admissible ASCII characters, dictionary words "
    "alone / capitalised / joined with spaces, punctuation and each other, random mixtures of words, "
    "spaces and ASCII to length 80; τ/β: every base 2..300 with n in {0,1,b-1,b,b+1}, b^k+d up to "
    "k=130 and random n to 10^120. Non-trivial = argument tuple other than the integers 0, 1 and the "
    "empty string; exhaustive families are disjoint by construction and counted, the others hashed "
    "(values already covered by an exhaustive family are not generated again)."
)
ASSUMPTIONS = [
    "printable ASCII is taken as 0x20..0x7E",
    "the compressed text is run with dictionary compression on (the interpreter's default)",
    "digits are required to be exact integers (int / sympy Integer) in 0..b-1; leading zero digits are allowed",
    "workload generation reads vyxal.dictionary.contents to pick dictionary words (not used by any oracle)",
]
MIN_COUNTERS = {
    # unchanged tree, seed 0: quick 6 408 / 2 440 / 39 402 / 39 402 / 12 957 / 354 341;
    # thorough 119 907 / 32 675 / 564 464 / 564 464 / 160 843 / 8 105 973
    "oC_roundtrips": {"quick": 1200, "thorough": 23000},
    "oc_roundtrips": {"quick": 450, "thorough": 6000},
    "oD_roundtrips": {"quick": 7500, "thorough": 100000},
    "oD_length_checks": {"quick": 7500, "thorough": 100000},
    "base_roundtrips": {"quick": 2500, "thorough": 30000},
    "digits_checked": {"quick": 60000, "thorough": 1500000},
}
UNIT_TIMEOUT = 1800
MAX_WITNESSES = 20
BIG = 10 ** 120
FLOAT_RANGE = 2 ** 1024  # integers from here on have no finite double
LOWER = " abcdefghijklmnopqrstuvwxyz"
ASCII_OK = [chr(i) for i in range(0x20, 0x7F) if chr(i) not in "\\`"]
FALLBACK_WORDS = ["the", "of", "and", "hello", "world", "quick", "brown", "fox", "there", "with",
                  "compression", "string", "number", "never", "which", "because"]


# ---------------------------------------------------------------------------
# work units
def units(tier, seed):
    q = tier == "quick"
    u = []
    # --- øC ------------------------------------------------------------------
    rmax = 3000 if q else 100000
    step = 100 if q else 200
    for lo in range(1, rmax + 1, step):
        u.append({"kind": "oC_range", "lo": lo, "hi": min(rmax, lo + step - 1)})
    for klo in range(1, 131, 10):
        u.append({"kind": "oC_pow", "b": 255, "klo": klo, "khi": klo + 9, "kstep": 1, "min": rmax})
    for b in (2, 10, 16, 27, 254, 256):
        kmax = _kmax(b)
        kstep = 4 if q else 1
        chunk = 40 * kstep
        for klo in range(1, kmax + 1, chunk):
            u.append({"kind": "oC_pow", "b": b, "klo": klo, "khi": min(kmax, klo + chunk - 1),
                      "kstep": kstep, "min": rmax})
    n_rand, per = (1500, 100) if q else (15000, 150)
    for k in range(n_rand // per):
        u.append({"kind": "oC_rand", "seed": f"C15:{seed}:oC:{k}", "n": per, "min": rmax})
    # --- øc ------------------------------------------------------------------
    u.append({"kind": "oc_empty"})
    smax = 2 if q else 3
    for first in LOWER[1:]:
        if smax == 2:
            u.append({"kind": "oc_short", "prefix": first, "maxlen": smax})
        else:
            for second in LOWER:
                u.append({"kind": "oc_short", "prefix": first + second, "maxlen": smax})
            u.append({"kind": "oc_short", "prefix": first, "maxlen": 1})
    for b, kmax in ((255, 47), (27, 79)):
        for klo in range(1, kmax + 1, 16):
            u.append({"kind": "oc_pow", "b": b, "klo": klo, "khi": min(kmax, klo + 15), "minlen": smax})
    n_rand, per = (1500, 100) if q else (15000, 150)
    for k in range(n_rand // per):
        u.append({"kind": "oc_rand", "seed": f"C15:{seed}:oc:{k}", "n": per, "minlen": smax})
    # --- øD ------------------------------------------------------------------
    for i in range(0, len(ASCII_OK), 8):
        u.append({"kind": "oD_short", "lo": i, "hi": min(len(ASCII_OK), i + 8)})
    n_words, per = (3000, 250) if q else (None, 500)
    if n_words is None:
        for lo in range(0, 24000, per):
            u.append({"kind": "oD_words", "seed": f"C15:{seed}:oDw:{lo}", "lo": lo, "hi": lo + per})
    else:
        for k in range(n_words // per):
            u.append({"kind": "oD_words", "seed": f"C15:{seed}:oDw:{k}", "sample": per})
        # index boundaries of both dictionaries: first and last entries
        u.append({"kind": "oD_words", "seed": f"C15:{seed}:oDw:first", "lo": 0, "hi": 200})
        u.append({"kind": "oD_words", "seed": f"C15:{seed}:oDw:last", "lo": -200, "hi": None})
    u.append({"kind": "oD_words", "seed": f"C15:{seed}:oDw:small", "small": True})
    n_rand, per = (8000, 500) if q else (400000, 2500)
    for k in range(n_rand // per):
        u.append({"kind": "oD_rand", "seed": f"C15:{seed}:oD:{k}", "n": per})
    # --- τ / β -----------------------------------------------------------------
    for b in range(2, 301):
        u.append({"kind": "base", "b": b, "tier": tier, "seed": f"C15:{seed}:base:{b}"})
    # interleave cheap and expensive kinds so the pool drains evenly
    r = random.Random(f"C15:{seed}:order")
    r.shuffle(u)
    return u


def _kmax(b):
    k = 0
    while b ** (k + 1) <= BIG:
        k += 1
    return k


def setup_worker():
    pass


# ---------------------------------------------------------------------------
class _Abort(Exception):
    """Stop a unit on a badly broken tree once MAX_WITNESSES witnesses exist."""


class _Acc:
    def __init__(self):
        self.res = {"evals": 0, "keys": [], "distinct": 0, "violations": [], "inconclusive": [],
                    "skips": {}, "counters": {}, "samples": []}
        self.c = self.res["counters"]

    def bump(self, name, n=1):
        self.c[name] = self.c.get(name, 0) + n

    def skip(self, why):
        self.res["skips"][why] = self.res["skips"].get(why, 0) + 1

    def guard(self):
        if len(self.res["violations"]) >= MAX_WITNESSES or len(self.res["inconclusive"]) >= MAX_WITNESSES:
            self.bump("unit_stopped_after_max_witnesses")
            raise _Abort()

    def violation(self, mech, what, unit, **kw):
        self.bump("violations_" + mech)
        if len(self.res["violations"]) >= MAX_WITNESSES:
            self.bump("violations_not_listed")
            return
        d = {"mechanism": mech, "what": what, "unit": unit}
        d.update(kw)
        self.res["violations"].append(d)

    def inconclusive(self, why, **kw):
        d = {"why": why}
        d.update(kw)
        self.res["inconclusive"].append(d)


def _err(r):
    return f"{r.error[0]} error {type(r.error[1]).__name__}: {r.error[1]}"[:200]


def _resource_error(r):
    return r.error is not None and isinstance(r.error[1], (MemoryError, RecursionError))


def _short(x, n=70):
    s = repr(x)
    return s if len(s) <= n else s[: n - 12] + "..." + s[-9:]


def _mk_int(n, sym):
    if sym:
        import sympy

        return sympy.Integer(n)
    return n


ELEMENT = {"oC": "øC", "oc": "øc", "oD": "øD"}
TOKEN_KIND = {"oC": "COMPRESSED_NUMBER", "oc": "COMPRESSED_STRING", "oD": "STRING"}


def diagnose_literal(codec, text):
    """What did the tree's own lexer / parser make of the compressed text?
    Returns (mechanism suffix, detail). Diagnosis only."""
    try:
        from vyxal import lexer, parse

        toks = lexer.tokenise(text)
        kind = getattr(lexer.TokenType, TOKEN_KIND[codec])
        if len(toks) != 1 or toks[0].name != kind:
            return "compressed-literal-mislexed", f"tokens {toks!r}"[:200]
        tree = parse.parse(lexer.tokenise(text))
        ok = (len(tree) == 1 and type(tree[0]).__name__ == "GenericStatement"
              and tree[0].branches[0][0].name == kind)
        if not ok:
            return "compressed-literal-parsed-as-syntax", f"token {toks[0]!r} parsed as {tree!r}"[:200]
    except Exception as e:  # noqa  (diagnosis must never decide anything)
        return "roundtrip-mismatch", f"diagnosis unavailable: {e!r}"[:120]
    return "roundtrip-mismatch", "lexed and parsed as one literal"


def check_codec(acc, codec, x, sym=False):
    """x: int (oC) or str (oc / oD)."""
    from lib import env
    from lib.values import canon
    from lib.worker import watchdog, Watchdog

    acc.guard()
    key = ELEMENT[codec]
    unit = {"kind": "one", "codec": codec, "x": str(x) if codec == "oC" else x, "sym": bool(sym)}
    arg = _mk_int(x, sym) if codec == "oC" else x
    how = " (argument as sympy Integer)" if (sym and codec == "oC") else ""
    try:
        with watchdog(10):
            r = env.run_text(key, stack=[arg])
    except Watchdog:
        acc.inconclusive("watchdog in " + key, x=_short(x))
        return
    except (MemoryError, RecursionError) as e:
        acc.inconclusive(type(e).__name__ + " in " + key, x=_short(x))
        return
    if _resource_error(r):
        acc.inconclusive(type(r.error[1]).__name__ + " in " + key, x=_short(x))
        return
    acc.res["evals"] += 1
    acc.bump(codec + "_compress_calls")
    if r.error is not None or len(r.stack) != 1 or not isinstance(r.stack[-1], str):
        obs = _err(r) if r.error is not None else f"stack {_short(r.stack)}"
        mech = "compress-empty-string" if x == "" else "compress-raised"
        if codec == "oC" and x >= FLOAT_RANGE:
            mech = "to-base-beyond-float-range"
        acc.violation(mech, f"{key} on {_short(x)}{how}: {obs}; no literal text produced", unit,
                      codec=codec, observed=obs)
        return
    text = r.stack[-1]
    # --- run the produced text as a program ----------------------------------
    try:
        with watchdog(5):
            r2 = env.run_text(text)
            got = canon(r2.stack, limit=50) if r2.error is None else None
    except Watchdog:
        # stray text executed as code can loop: that is itself a failed round trip, but
        # a watchdog never decides -> inconclusive, with the diagnosis attached
        acc.inconclusive("watchdog running compressed text", x=_short(x), text=text,
                         diagnosis=diagnose_literal(codec, text)[0])
        return
    except (MemoryError, RecursionError) as e:
        acc.inconclusive(type(e).__name__ + " running compressed text", x=_short(x), text=text)
        return
    if _resource_error(r2):
        acc.inconclusive(type(r2.error[1]).__name__ + " running compressed text", x=_short(x), text=text)
        return
    acc.bump(codec + "_roundtrips")
    if r2.error is not None or got != [x]:
        obs = _err(r2) if r2.error is not None else f"stack {_short(got)}"
        mech, detail = diagnose_literal(codec, text)
        if x == "" and codec == "oc":
            mech = "compress-empty-string"
        acc.violation(mech, f"{key} on {_short(x)}{how} gave {_short(text)}; run as a program it left {obs} "
                            f"instead of [{_short(x)}] ({detail})", unit,
                      codec=codec, text=text, observed=obs, diagnosis=detail)
    elif acc.c.get(codec + "_roundtrips", 0) % 3 == 0:
        # "evaluates back to exactly the original value" wherever the literal stands: here in the condition of a
        # while loop, which the transpiler emits twice (before the loop and at the end of the body); the value
        # kept is the one from the second evaluation
        prog = "0→i{" + text + "→v←i0=|1→i}←v"
        try:
            with watchdog(5):
                r3 = env.run_text(prog)
                got3 = canon(r3.stack, limit=50) if r3.error is None else None
        except (Watchdog, MemoryError, RecursionError):
            r3 = None
        if r3 is not None and not _resource_error(r3):
            acc.bump("roundtrips_in_while_condition")
            if r3.error is not None or got3 != [x]:
                obs = _err(r3) if r3.error is not None else f"stack {_short(got3)}"
                acc.violation("literal-differs-on-second-evaluation",
                              f"{key} on {_short(x)}{how} gave {_short(text)}; alone it evaluates back, as the condition of a "
                              f"while loop ({_short(prog)}) the second evaluation left {obs} instead of [{_short(x)}]", unit,
                              codec=codec, text=text, observed=obs)
    if codec == "oD":
        acc.bump("oD_length_checks")
        plain = "`" + x + "`"
        if len(text) > len(plain):
            acc.violation("dict-compress-longer-than-plain",
                          f"øD on {_short(x)} gave {_short(text)} ({len(text)} characters), longer than the "
                          f"plain literal ({len(plain)} characters)", unit, codec=codec, text=text)


def check_base(acc, n, b, sym=False):
    from lib import env
    from lib.values import canon
    from lib.worker import watchdog, Watchdog

    acc.guard()
    unit = {"kind": "one", "codec": "base", "x": str(n), "b": b, "sym": bool(sym)}
    how = " (arguments as sympy Integers)" if sym else ""
    try:
        with watchdog(10):
            r = env.run_text("τ", stack=[_mk_int(n, sym), _mk_int(b, sym)])
            digits_obj = r.stack[-1] if (r.error is None and len(r.stack) == 1) else None
            digits = canon(digits_obj, limit=3000) if digits_obj is not None else None
    except Watchdog:
        acc.inconclusive("watchdog in τ", n=_short(n), b=b)
        return
    except (MemoryError, RecursionError) as e:
        acc.inconclusive(type(e).__name__ + " in τ", n=_short(n), b=b)
        return
    if _resource_error(r):
        acc.inconclusive(type(r.error[1]).__name__ + " in τ", n=_short(n), b=b)
        return
    acc.res["evals"] += 1
    acc.bump("to_base_calls")
    if r.error is not None or len(r.stack) != 1:
        obs = _err(r) if r.error is not None else f"stack {_short(r.stack)}"
        mech = "to-base-zero" if n == 0 else "to-base-beyond-float-range" if n >= FLOAT_RANGE else "to-base-raised"
        acc.violation(mech, f"τ on [{_short(n)}, {b}]{how}: {obs}", unit, observed=obs)
        return
    if not isinstance(digits, list) or not digits:
        acc.violation("to-base-malformed", f"τ on [{_short(n)}, {b}] gave {_short(digits)}, not a digit list",
                      unit, observed=_short(digits))
        return
    bad = [d for d in digits if not (isinstance(d, int) and not isinstance(d, bool) and 0 <= d < b)]
    acc.bump("digits_checked", len(digits))
    if bad:
        acc.violation("digit-out-of-range",
                      f"τ on [{_short(n)}, {b}]{how} gave digits {_short(digits)} containing {_short(bad[:3])} "
                      f"outside 0..{b - 1}", unit, observed=_short(digits))
    try:
        with watchdog(10):
            r2 = env.run_text("β", stack=[digits_obj, _mk_int(b, sym)])
            got = canon(r2.stack, limit=50) if r2.error is None else None
    except Watchdog:
        acc.inconclusive("watchdog in β", n=_short(n), b=b)
        return
    except (MemoryError, RecursionError) as e:
        acc.inconclusive(type(e).__name__ + " in β", n=_short(n), b=b)
        return
    if _resource_error(r2):
        acc.inconclusive(type(r2.error[1]).__name__ + " in β", n=_short(n), b=b)
        return
    acc.bump("base_roundtrips")
    if r2.error is not None:
        acc.violation("from-base-raised", f"β on [{_short(digits)}, {b}] (digits of {_short(n)}): {_err(r2)}",
                      unit, observed=_err(r2))
    elif got != [n]:
        acc.violation("base-roundtrip-mismatch",
                      f"τ on [{_short(n)}, {b}]{how} gave {_short(digits)}; β of that left {_short(got)} "
                      f"instead of [{_short(n)}]", unit, observed=_short(got), digits=_short(digits, 300))


# ---------------------------------------------------------------------------
# generators
def _to27(n):
    """The string over [ a-z] whose base-27 value is n (n >= 1: no leading space)."""
    out = []
    while n:
        n, d = divmod(n, 27)
        out.append(LOWER[d])
    return "".join(reversed(out))


def _rand_big(r, lo=2):
    e = r.uniform(0.5, 120)
    n = int(10 ** e) if e < 15 else r.randrange(10 ** int(e), 10 ** (int(e) + 1))
    return max(lo, n + r.randint(-3, 3))


def _rand_lower(r):
    n = r.choice((r.randint(1, 8), r.randint(1, 30), r.randint(30, 80)))
    p_space = r.choice((0.0, 0.1, 0.2, 0.5, 0.9))
    first = r.choice(LOWER[1:])
    rest = [(" " if r.random() < p_space else r.choice(r.choice(("az", LOWER[1:])))) for _ in range(n - 1)]
    return first + "".join(rest)


def _dictionary_words(acc):
    try:
        from vyxal import dictionary

        words = [w for w in dictionary.contents if isinstance(w, str)]
        if len(words) < 1000:
            raise ValueError("short")
        return words
    except Exception:  # noqa
        acc.bump("dictionary_words_unavailable")
        return list(FALLBACK_WORDS)


def _admissible(s):
    return all(" " <= ch <= "~" and ch not in "\\`" for ch in s)


def _rand_mixture(r, words):
    out = ""
    target = r.choice((r.randint(3, 12), r.randint(10, 40), r.randint(40, 80)))
    style = r.random()
    while len(out) < target:
        x = r.random()
        if x < (0.55 if style < 0.7 else 0.15):
            w = r.choice(words)
            y = r.random()
            if y < 0.15:
                w = w.capitalize()
            elif y < 0.2:
                w = w.upper()
            elif y < 0.3:
                w = w[: r.randint(1, max(1, len(w)))]  # a prefix of a word
            out += w
        elif x < 0.8:
            out += r.choice((" ", " ", "  ", ", ", ". ", "-", "'s ", "! ", "\"", "'"))
        else:
            out += "".join(r.choice(ASCII_OK) for _ in range(r.randint(1, 4)))
    out = out[:80]
    return out


# ---------------------------------------------------------------------------
def run_unit(unit):
    acc = _Acc()
    try:
        _run_kind(acc, unit)
    except _Abort:
        pass
    return acc.res


def _run_kind(acc, unit):
    from lib.harness import short_hash

    res = acc.res
    k = unit["kind"]

    def keyed(tag, *args):
        res["keys"].append(short_hash([tag] + [str(a) for a in args]))

    if k == "one":
        codec = unit["codec"]
        if codec == "base":
            check_base(acc, int(unit["x"]), int(unit["b"]), unit.get("sym", False))
        elif codec == "oC":
            check_codec(acc, "oC", int(unit["x"]), unit.get("sym", False))
        else:
            check_codec(acc, codec, unit["x"])
        keyed(codec, unit["x"], unit.get("b"))
    # ---- øC -------------------------------------------------------------------
    elif k == "oC_range":
        for n in range(unit["lo"], unit["hi"] + 1):
            check_codec(acc, "oC", n, sym=(n % 4 == 3))
            if n > 1:
                res["distinct"] += 1
        res["samples"].append({"codec": "øC", "x": unit["hi"]})
    elif k == "oC_pow":
        b = unit["b"]
        seen = set()
        for kk in range(unit["klo"], unit["khi"] + 1, unit["kstep"]):
            for d in (-1, 0, 1):
                n = b ** kk + d
                if n <= unit["min"] or n in seen:
                    continue  # covered exhaustively by oC_range
                seen.add(n)
                check_codec(acc, "oC", n, sym=False)
                check_codec(acc, "oC", n, sym=True)
                keyed("oC", n)
    elif k == "oC_rand":
        r = random.Random(unit["seed"])
        seen = set()
        for i in range(unit["n"]):
            n = _rand_big(r, lo=unit["min"] + 1)
            if n <= unit["min"] or n in seen:
                continue
            seen.add(n)
            check_codec(acc, "oC", n, sym=(i % 4 == 3))
            keyed("oC", n)
            if i == 0:
                res["samples"].append({"codec": "øC", "x": str(n)})
    # ---- øc -------------------------------------------------------------------
    elif k == "oc_empty":
        check_codec(acc, "oc", "")  # trivial argument: executed, not counted as distinct
    elif k == "oc_short":
        p = unit["prefix"]
        for n in range(0, unit["maxlen"] - len(p) + 1):
            for tail in itertools.product(LOWER, repeat=n):
                s = p + "".join(tail)
                check_codec(acc, "oc", s)
                res["distinct"] += 1
        res["samples"].append({"codec": "øc", "x": p})
    elif k == "oc_pow":
        b = unit["b"]
        seen = set()
        for kk in range(unit["klo"], unit["khi"] + 1):
            for d in (-1, 0, 1):
                s = _to27(b ** kk + d)
                if len(s) <= unit["minlen"] or len(s) > 80 or s in seen:
                    continue
                seen.add(s)
                check_codec(acc, "oc", s)
                keyed("oc", s)
    elif k == "oc_rand":
        r = random.Random(unit["seed"])
        seen = set()
        for i in range(unit["n"]):
            s = _rand_lower(r)
            if len(s) <= unit["minlen"] or s in seen:
                continue
            seen.add(s)
            check_codec(acc, "oc", s)
            keyed("oc", s)
            if i == 0:
                res["samples"].append({"codec": "øc", "x": s})
    # ---- øD -------------------------------------------------------------------
    elif k == "oD_short":
        if unit["lo"] == 0:
            check_codec(acc, "oD", "")  # trivial argument: executed, not counted as distinct
        for a in ASCII_OK[unit["lo"]:unit["hi"]]:
            check_codec(acc, "oD", a)
            res["distinct"] += 1
            for c in ASCII_OK:
                check_codec(acc, "oD", a + c)
                res["distinct"] += 1
    elif k == "oD_words":
        words = _dictionary_words(acc)
        r = random.Random(unit["seed"])
        if unit.get("small"):
            try:
                from vyxal import dictionary

                chosen = [w for w in dictionary.small_dictionary if isinstance(w, str)]
            except Exception:  # noqa
                chosen = []
        elif "sample" in unit:
            chosen = [r.choice(words) for _ in range(unit["sample"])]
        else:
            chosen = words[unit["lo"]:unit["hi"]]
        seen = set()
        for w in chosen:
            other = r.choice(words)
            for s in (w, w.capitalize(), w + " " + other, w + other, w + r.choice((",", ".", "!", "'s", "-")) + " " + other,
                      " " + w, w + " ", w.upper()):
                if len(s) <= 2 or s in seen or not _admissible(s):
                    if not _admissible(s):
                        acc.skip("dictionary word outside the øD domain")
                    continue
                seen.add(s)
                check_codec(acc, "oD", s)
                keyed("oD", s)
        if chosen:
            res["samples"].append({"codec": "øD", "x": chosen[0]})
    elif k == "oD_rand":
        words = [w for w in _dictionary_words(acc) if _admissible(w)]
        r = random.Random(unit["seed"])
        seen = set()
        for i in range(unit["n"]):
            s = _rand_mixture(r, words)
            if len(s) <= 2 or s in seen or not _admissible(s):
                continue
            seen.add(s)
            check_codec(acc, "oD", s)
            keyed("oD", s)
            if i == 0:
                res["samples"].append({"codec": "øD", "x": s})
    # ---- τ / β ------------------------------------------------------------------
    elif k == "base":
        b = unit["b"]
        r = random.Random(unit["seed"])
        ns = [0, 1, b - 1, b, b + 1]
        if unit["tier"] == "quick":
            for kk in (2, 3, 5, 8, 13, 30, 64, 130):
                ns.append(b ** kk)
            for kk in (2, 3, 13, 130):
                ns += [b ** kk - 1, b ** kk + 1]
            n_boundary = len(ns)
            ns += [_rand_big(r) for _ in range(4)]
        else:
            for kk in range(2, 131):
                ns.append(b ** kk)
                if kk <= 30 or kk % 5 == 0:
                    ns += [b ** kk - 1, b ** kk + 1]
            n_boundary = len(ns)
            ns += [_rand_big(r) for _ in range(40)]
            ns += list(range(2, 40))
        seen = set()
        for i, n in enumerate(ns):
            if n in seen:
                continue
            seen.add(n)
            if i < n_boundary:
                # boundary values: once as Python ints, once as the sympy Integers
                # that number literals put on the stack
                check_base(acc, n, b, sym=False)
                check_base(acc, n, b, sym=True)
            else:
                check_base(acc, n, b, sym=(i % 2 == 1))
            if n > 1:
                keyed("base", n, b)
        res["samples"].append({"codec": "τβ", "n": str(ns[7]), "b": b})
    else:
        raise ValueError(f"unknown unit kind {k!r}")


def classify(w):
    m = w.get("mechanism")
    if not m:
        return None
    if m == "compress-empty-string":
        return "C15-oc-empty-string"
    return "C15-" + m


def finalize(agg, tier):
    return {"exhaustive": False}
