"""Runs a program through the real entry point `execute_vyxal` under monitors.

Instruments (all attached from outside, feature-detected):
  * `exec` as seen by vyxal.main is rebound to a recorder that captures the
    namespace of the transpiled program (final `stack`, `ctx`) — M-FRAME by
    namespace rebinding; if main stops calling a bare `exec` the recorder sees
    nothing and the case is inconclusive, never a false alarm;
  * `get_input` in vyxal.helpers (and every module that star-imported it) is
    rebound to a recording wrapper (C11's secondary monitor);
  * stdout is recorded at sys.stdout *and* at fd 1.
"""
from __future__ import annotations

import builtins
import os
import sys

from lib import env
from lib.values import canon
from lib.worker import Watchdog, watchdog

_installed = False
PROBE = {"ns": None, "calls": 0, "source": None, "depth_before": None, "depth_after": None,
         "raised": None, "reads": None, "stack_before_output": None}


def _view(v, depth=0):
    """Side-effect free view of a delivered input value: lazy lists are never iterated (forcing one
    would run program code inside the monitor)."""
    if type(v).__name__ == "LazyList":
        return {"x": "lazy"}
    if type(v) is list:
        if depth > 6 or len(v) > 60:
            return {"x": "list"}
        return [_view(x, depth + 1) for x in v]
    return canon(v, limit=5)


def depth_tuple(ctx):
    try:
        return [len(ctx.context_values), len(ctx.inputs), len(ctx.stacks), len(ctx.function_stack)]
    except Exception:  # noqa
        return None


def stack_shape(stack):
    """Side-effect free abstraction of a stack: one tag per entry (never forces a lazy list)."""
    import types as _t

    out = ""
    try:
        for v in stack:
            if isinstance(v, str):
                out += "s"
            elif isinstance(v, list) or type(v).__name__ == "LazyList":
                out += "L"
            elif isinstance(v, _t.FunctionType):
                out += "f"
            else:
                out += "n"
    except Exception:  # noqa
        return "?"
    return out


TOOL = 3  # a free sys.monitoring tool id
_mon = {"on": False}


def _line_cb(code, line):
    st = PROBE.get("line_state")
    if st is None or code is not st["code"]:
        return sys.monitoring.DISABLE
    if line in st["boundaries"]:
        st["checks"] += 1
        if len(st["shapes"]) < 4000:
            sh = stack_shape(st["ns"].get("stack"))
            if not st["shapes"] or st["shapes"][-1] != sh:
                st["shapes"].append(sh)
        d = depth_tuple(st["ctx"])
        if d != st["initial"] and st["first_bad"] is None:
            st["first_bad"] = {"python_line": line, "depths": d, "initial": st["initial"],
                               "line_text": st["lines"][line - 1][:120] if line - 1 < len(st["lines"]) else ""}
    return None


UNWIND_TOOL = 5
_unw = {"on": False}


def _unwind_cb(code, offset, exc):
    if code.co_filename in ("<string>", "<vyxal-program>") and code.co_name.startswith(("_lambda_", "VAR_", "list_item")):
        if not isinstance(exc, (SystemExit, Watchdog)):
            PROBE["unwinds"] = PROBE.get("unwinds", 0) + 1
    return None


def _unwind_monitor(on):
    """Counts lambda / function / list-item frames of the transpiled program that are
    left by an exception (their epilogue does not run). A program in which that happened
    did not 'finish normally' even if something further up swallowed the error."""
    E = sys.monitoring.events
    if on and not _unw["on"]:
        try:
            sys.monitoring.use_tool_id(UNWIND_TOOL, "verif-unwind")
        except ValueError:
            pass
        sys.monitoring.register_callback(UNWIND_TOOL, E.PY_UNWIND, _unwind_cb)
        sys.monitoring.set_events(UNWIND_TOOL, E.PY_UNWIND)
        _unw["on"] = True
    elif not on and _unw["on"]:
        sys.monitoring.set_events(UNWIND_TOOL, 0)
        _unw["on"] = False


def _arm_line_monitor(source, ns):
    """M-LINE: LINE events set *locally* on the transpiled program's code object;
    at the first line of every top-level Python statement the four bookkeeping
    stacks must be at their initial depth."""
    import ast as _ast

    try:
        tree = _ast.parse(source)
        code = compile(source, "<vyxal-program>", "exec")
    except SyntaxError:
        return source
    if not _mon["on"]:
        try:
            sys.monitoring.use_tool_id(TOOL, "verif-line")
        except ValueError:
            pass
        sys.monitoring.register_callback(TOOL, sys.monitoring.events.LINE, _line_cb)
        _mon["on"] = True
    PROBE["line_state"] = {
        "code": code, "ctx": ns["ctx"], "initial": depth_tuple(ns["ctx"]),
        "boundaries": {st.lineno for st in tree.body}, "checks": 0, "first_bad": None, "shapes": [], "ns": ns,
        "lines": source.split("\n"),
    }
    sys.monitoring.set_local_events(TOOL, code, sys.monitoring.events.LINE)
    return code


def _exec_recorder(source, ns=None, *rest):
    PROBE["calls"] += 1
    first = PROBE["ns"] is None and isinstance(ns, dict) and "stack" in ns and "ctx" in ns
    if first:
        PROBE["ns"] = ns
        PROBE["source"] = source if isinstance(source, str) else None
        PROBE["depth_before"] = depth_tuple(ns["ctx"])
        if PROBE.get("want_lines") and isinstance(source, str):
            source = _arm_line_monitor(source, ns)
    try:
        if ns is None:
            # called with the caller's frame globals/locals (e.g. vy_exec): emulate
            fr = sys._getframe(1)
            return builtins.exec(source, fr.f_globals, fr.f_locals)
        return builtins.exec(source, ns, *rest)
    except BaseException as e:  # noqa
        if first:
            PROBE["raised"] = type(e).__name__
        raise
    finally:
        if first:
            st = PROBE.get("line_state")
            if st is not None:
                try:
                    sys.monitoring.set_local_events(TOOL, st["code"], 0)
                except Exception:  # noqa
                    pass
            try:
                PROBE["depth_after"] = depth_tuple(ns["ctx"])
                if PROBE.get("want_stack", True):
                    PROBE["context_top"] = canon(ns["ctx"].context_values[-1]) if ns["ctx"].context_values else None
                if PROBE.get("want_stack", True):
                    PROBE["stack_before_output"] = canon(ns.get("stack"), limit=2000)
                else:
                    PROBE["stack_before_output"] = []
            except Watchdog:
                raise
            except Exception as e:  # noqa
                PROBE["stack_before_output"] = {"x": "unobservable:" + type(e).__name__}


def install():
    """Rebind `exec` in vyxal.main and wrap get_input everywhere it was imported."""
    global _installed
    main = env.bind()
    if _installed:
        return
    main.exec = _exec_recorder
    import vyxal.helpers as H

    orig = H.get_input
    nest = [0]

    def get_input(ctx):
        explicit = bool(getattr(ctx, "use_top_input", False))
        depth = len(ctx.inputs) - 1
        nest[0] += 1
        try:
            v = orig(ctx)
        finally:
            nest[0] -= 1
        if PROBE["reads"] is not None and nest[0] == 0:
            try:
                PROBE["reads"].append(["explicit" if explicit else "implicit", 0 if explicit else depth, _view(v)])
            except Exception:  # noqa
                pass
        return v

    get_input.__wrapped__ = orig
    for name, mod in list(sys.modules.items()):
        if name.startswith("vyxal") and mod is not None and getattr(mod, "get_input", None) is orig:
            mod.get_input = get_input
    _installed = True


def run_impl(text, inputs=(), flags="", online=False, timeout=10, line_monitor=False, observe_stack=True):
    """Returns a dict: stdout, fd1, error, final_stack, depths, reads, probe_calls."""
    main = env.bind()
    install()
    PROBE.update(ns=None, source=None, depth_before=None, depth_after=None, raised=None,
                 reads=[], stack_before_output=None, context_top=None, line_state=None,
                 want_lines=line_monitor, want_stack=observe_stack, unwinds=0)
    _unwind_monitor(line_monitor)
    calls0 = PROBE["calls"]
    out = {"error": None}
    record = None
    cap = env.StdoutCapture()
    try:
        with cap:
            try:
                with watchdog(timeout):
                    if online:
                        record = {1: "", 2: ""}
                        main.execute_vyxal(text, flags + "e", "\n".join(inputs), record, True)
                    else:
                        main.execute_vyxal(text, flags + "e", list(inputs))
            except Watchdog:
                out["error"] = "watchdog"
            except SystemExit as e:
                out["error"] = f"SystemExit({e.code})"
            except RecursionError:
                out["error"] = "RecursionError"
            except MemoryError:
                out["error"] = "MemoryError"
            except Exception as e:  # noqa
                out["error"] = f"{type(e).__name__}: {e}"[:300]
    finally:
        pass
    out["stdout"] = cap.text
    out["fd1"] = cap.fd_bytes.decode("utf-8", "replace")
    out["record"] = record
    out["probe_calls"] = PROBE["calls"] - calls0
    out["final_stack"] = PROBE["stack_before_output"]
    out["depth_before"] = PROBE["depth_before"]
    out["depth_after"] = PROBE["depth_after"]
    out["context_top"] = PROBE.get("context_top")
    out["exec_raised"] = PROBE["raised"]
    out["reads"] = PROBE["reads"]
    out["code"] = PROBE["source"]
    st = PROBE.get("line_state")
    out["line_checks"] = st["checks"] if st else 0
    out["line_first_bad"] = st["first_bad"] if st else None
    out["shapes"] = st["shapes"] if st else None
    out["unwinds"] = PROBE.get("unwinds", 0)
    _unwind_monitor(False)
    PROBE["line_state"] = None
    PROBE["reads"] = None
    return out
