"""Runs a program through the real entry point `execute_vyxal` under monitors.

Instruments (all attached from outside, feature-detected):
  * `exec` as seen by vyxal.main is rebound to a recorder that captures the
    namespace of the transpiled program (final `stack`, `ctx`) — M-FRAME by
    namespace rebinding; if main stops calling a bare `exec` the recorder sees
    nothing and the case is inconclusive, never a false alarm;
  * `get_input` in vyxal.helpers (and every module that star-imported it) is
    rebound to a recording wrapper (C11's secondary monitor);
  * stdout is recorded at sys.stdout *and* at fd 1.
"""
from __future__ import annotations

import builtins
import os
import sys

from lib import env
from lib.values import canon
from lib.worker import Watchdog, watchdog

_installed = False
PROBE = {"ns": None, "calls": 0, "source": None, "depth_before": None, "depth_after": None,
         "raised": None, "reads": None, "stack_before_output": None}


def depth_tuple(ctx):
    try:
        return [len(ctx.context_values), len(ctx.inputs), len(ctx.stacks), len(ctx.function_stack)]
    except Exception:  # noqa
        return None


def _exec_recorder(source, ns=None, *rest):
    PROBE["calls"] += 1
    first = PROBE["ns"] is None and isinstance(ns, dict) and "stack" in ns and "ctx" in ns
    if first:
        PROBE["ns"] = ns
        PROBE["source"] = source if isinstance(source, str) else None
        PROBE["depth_before"] = depth_tuple(ns["ctx"])
    try:
        if ns is None:
            # called with the caller's frame globals/locals (e.g. vy_exec): emulate
            fr = sys._getframe(1)
            return builtins.exec(source, fr.f_globals, fr.f_locals)
        return builtins.exec(source, ns, *rest)
    except BaseException as e:  # noqa
        if first:
            PROBE["raised"] = type(e).__name__
        raise
    finally:
        if first:
            try:
                PROBE["depth_after"] = depth_tuple(ns["ctx"])
                PROBE["context_top"] = canon(ns["ctx"].context_values[-1]) if ns["ctx"].context_values else None
                PROBE["stack_before_output"] = canon(ns.get("stack"), limit=400)
            except Watchdog:
                raise
            except Exception as e:  # noqa
                PROBE["stack_before_output"] = {"x": "unobservable:" + type(e).__name__}


def install():
    """Rebind `exec` in vyxal.main and wrap get_input everywhere it was imported."""
    global _installed
    main = env.bind()
    if _installed:
        return
    main.exec = _exec_recorder
    import vyxal.helpers as H

    orig = H.get_input
    nest = [0]

    def get_input(ctx):
        explicit = bool(getattr(ctx, "use_top_input", False))
        depth = len(ctx.inputs) - 1
        nest[0] += 1
        try:
            v = orig(ctx)
        finally:
            nest[0] -= 1
        if PROBE["reads"] is not None and nest[0] == 0:
            try:
                PROBE["reads"].append(["explicit" if explicit else "implicit", 0 if explicit else depth,
                                       {"x": "lazy"} if type(v).__name__ == "LazyList" else canon(v, limit=50)])
            except Exception:  # noqa
                pass
        return v

    get_input.__wrapped__ = orig
    for name, mod in list(sys.modules.items()):
        if name.startswith("vyxal") and mod is not None and getattr(mod, "get_input", None) is orig:
            mod.get_input = get_input
    _installed = True


def run_impl(text, inputs=(), flags="", online=False, timeout=10):
    """Returns a dict: stdout, fd1, error, final_stack, depths, reads, probe_calls."""
    main = env.bind()
    install()
    PROBE.update(ns=None, source=None, depth_before=None, depth_after=None, raised=None,
                 reads=[], stack_before_output=None, context_top=None)
    calls0 = PROBE["calls"]
    out = {"error": None}
    record = None
    cap = env.StdoutCapture()
    try:
        with cap:
            try:
                with watchdog(timeout):
                    if online:
                        record = {1: "", 2: ""}
                        main.execute_vyxal(text, flags + "e", "\n".join(inputs), record, True)
                    else:
                        main.execute_vyxal(text, flags + "e", list(inputs))
            except Watchdog:
                out["error"] = "watchdog"
            except SystemExit as e:
                out["error"] = f"SystemExit({e.code})"
            except RecursionError:
                out["error"] = "RecursionError"
            except MemoryError:
                out["error"] = "MemoryError"
            except Exception as e:  # noqa
                out["error"] = f"{type(e).__name__}: {e}"[:300]
    finally:
        pass
    out["stdout"] = cap.text
    out["fd1"] = cap.fd_bytes.decode("utf-8", "replace")
    out["record"] = record
    out["probe_calls"] = PROBE["calls"] - calls0
    out["final_stack"] = PROBE["stack_before_output"]
    out["depth_before"] = PROBE["depth_before"]
    out["depth_after"] = PROBE["depth_after"]
    out["context_top"] = PROBE.get("context_top")
    out["exec_raised"] = PROBE["raised"]
    out["reads"] = PROBE["reads"]
    out["code"] = PROBE["source"]
    PROBE["reads"] = None
    return out
