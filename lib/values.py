"""Canonical, JSON-serialisable views of Vyxal values.

`canon` is total and never forces more than `limit` items of a lazy list (an
over-long list is cut and tagged, so infinite lists cannot hang an oracle)."""
from __future__ import annotations

import fractions
import types


class TooLong(Exception):
    pass


def is_exact_number(v):
    import sympy

    if isinstance(v, bool):
        return False
    if isinstance(v, int):
        return True
    return isinstance(v, (sympy.Integer, sympy.Rational))


def to_fraction(v):
    import sympy

    if isinstance(v, int) and not isinstance(v, bool):
        return fractions.Fraction(v)
    if isinstance(v, (sympy.Integer, sympy.Rational)):
        return fractions.Fraction(int(v.p), int(v.q))
    raise TypeError(f"not an exact rational: {type(v).__name__} {v!r}")


def canon(v, limit=2000, _depth=0):
    """Exact canonical form. ints -> int, rationals -> {"q":[p,q]},
    strings -> str, lists and lazy lists -> list, anything else -> {"x": ...}."""
    import sympy

    if isinstance(v, bool):
        return {"x": f"bool:{v}"}
    if isinstance(v, int):
        return v
    if isinstance(v, sympy.Integer):
        return int(v)
    if isinstance(v, sympy.Rational):
        if v.q == 1:
            return int(v.p)
        return {"q": [int(v.p), int(v.q)]}
    if isinstance(v, str):
        return v
    if isinstance(v, float):
        return {"x": f"float:{v!r}"}
    if isinstance(v, types.FunctionType):
        return {"x": "function"}
    if isinstance(v, sympy.Basic):
        return {"x": f"sympy:{type(v).__name__}:{v}"}
    if v is None:
        return {"x": "None"}
    if _depth > 40:
        return {"x": "too-deep"}
    if isinstance(v, (list, tuple)) or type(v).__name__ == "LazyList":
        out = []
        for item in v:
            if len(out) >= limit:
                out.append({"x": "cut"})
                break
            out.append(canon(item, limit, _depth + 1))
        return out
    return {"x": f"{type(v).__name__}:{v!r}"[:200]}


def canon_loose(v, limit=2000):
    """Like canon, but floats are converted to the nearest exact rational the
    way the implementation's own vyxalify does when it wraps results in a
    lazy list (used only where the property does not speak about types)."""
    import sympy

    if isinstance(v, float):
        try:
            return canon(sympy.nsimplify(v, rational=True), limit)
        except Exception:  # noqa
            return {"x": f"float:{v!r}"}
    if isinstance(v, (list, tuple)) or type(v).__name__ == "LazyList":
        out = []
        for item in v:
            if len(out) >= limit:
                out.append({"x": "cut"})
                break
            out.append(canon_loose(item, limit))
        return out
    return canon(v, limit)


def from_spec(spec, lazy=False):
    """Materialise a pure-data value spec (as produced by canon on plain data):
    ints, {"q":[p,q]}, str, lists; {"lazy": [...]} makes a LazyList."""
    import sympy

    if isinstance(spec, dict):
        if "q" in spec:
            return sympy.Rational(spec["q"][0], spec["q"][1])
        if "lazy" in spec:
            from vyxal.LazyList import LazyList

            ll = LazyList(iter([from_spec(x) for x in spec["lazy"]]))
            # optional observation history before the value is handed out: "read": k items / "all"
            rd = spec.get("read")
            if rd == "all":
                len(ll)
            elif isinstance(rd, int) and rd > 0:
                ll.has_ind(rd - 1)
            return ll
        if "fn" in spec:
            from lib import env

            r = env.run_text(spec["fn"])
            if r.error or not r.stack:
                raise ValueError(f"cannot build function from {spec['fn']!r}: {r.error}")
            return r.stack[-1]
        raise ValueError(spec)
    if isinstance(spec, list):
        items = [from_spec(x) for x in spec]
        if lazy:
            from vyxal.LazyList import LazyList

            return LazyList(iter(items))
        return items
    return spec


def spec_plain(spec):
    """The denotation of a spec with laziness erased (lists stay lists)."""
    if isinstance(spec, dict):
        if "lazy" in spec:
            return [spec_plain(x) for x in spec["lazy"]]
        if "q" in spec:
            p, q = spec["q"]
            f = fractions.Fraction(p, q)
            if f.denominator == 1:
                return int(f)
            return {"q": [f.numerator, f.denominator]}
        if "fn" in spec:
            return {"x": "function"}
        return spec
    if isinstance(spec, list):
        return [spec_plain(x) for x in spec]
    return spec
