"""G-full: grammar-driven generator of well-formed Vyxal 2 programs.

A program is built as an AST of this module's own node types and *then*
serialised to text; well-formedness is by construction (the repo's parser is
never asked). The serialiser inserts a separator (one space, which the
documented grammar ignores) wherever the lexing rules would otherwise merge
two neighbouring tokens:

* a number followed by a digit, `.` or `°`;
* a variable get/set `←name` / `→name` followed by an ASCII letter or `_`;
* digraph heads `k ∆ ø Þ ¨`, `\\`, `‛`, `⁺` always come with their payload, so
  they never swallow a neighbour; `#` comments are always newline-terminated.

Besides the text, the serialiser returns the *intended token list*
[(kind, value), ...] and the number of trailing characters that are closers
and may be omitted (`] ) } ; ⟩` and at most one closing string delimiter).
`model_tokenise` is this module's own lexer, written from
documents/specs/Lexer.md; `self_check` re-lexes a text with it and compares
with the intended tokens (mismatch = generator bug: discard and count, never
a verdict).

Public API (used by C02, C04; meant for C03, C18 too)

    table = Table.from_repo()                 # in a worker, after env.bind()
    g = Gen(table, payload="benign")          # or "hostile" / "mixed"
    ast = g.gen_program(rnd, depth=4, size=30, spine_p=0.0)
    text = serialise(ast)                      # closed text
    s = serialise_full(ast)                    # Ser(text, tokens, droppable, n_struct_closers, str_delim)
    trailing_closers(ast)                      # the droppable suffix, as text
    truncations(ast)                           # [(k, text_k, tokens_k)] for k = 1..droppable
    intended_tokens(ast)
    model_tokenise(text); self_check(text, tokens)
    walk(ast)                                  # every node, pre-order, with its path of ancestors
    literals(ast)                              # Lit / Comment / Var nodes (payload carriers)
    to_json(ast) / from_json(obj)
    enum_asts(budget, leaves, ...)             # exhaustive small ASTs (closers on the right spine are free)
    shrink(ast, still_fails)                   # greedy AST minimiser for witnesses
"""
from __future__ import annotations

import string as _string

# ---------------------------------------------------------------- token kinds
STRING = "string"
NUMBER = "number"
CHARACTER = "character"
GENERAL = "general"
COMPRESSED_NUMBER = "compressed_number"
COMPRESSED_STRING = "compressed_string"
VARIABLE_GET = "variable_get"
VARIABLE_SET = "variable_set"
CODEPAGE_NUMBER = "codepage_number"
TOKEN_KINDS = (STRING, NUMBER, CHARACTER, GENERAL, COMPRESSED_NUMBER, COMPRESSED_STRING,
               VARIABLE_GET, VARIABLE_SET, CODEPAGE_NUMBER)

OPENERS = "[({@λƛ'µ⟨"
CLOSERS = "])};⟩"
CLOSER_OF = {"[": "]", "(": ")", "{": "}", "@": ";", "λ": ";", "ƛ": ";", "'": ";", "µ": ";", "⟨": "⟩"}
MONADIC = "v⁽&~ßƒɖ"
DYADIC = "₌‡₍"
TRIADIC = "≬"
MODIFIERS = MONADIC + DYADIC + TRIADIC
MOD_ARITY = {**{m: 1 for m in MONADIC}, **{m: 2 for m in DYADIC}, **{m: 3 for m in TRIADIC}}
DIGRAPH_HEADS = "k∆øÞ¨"
NUMCHARS = _string.digits + ".°"
NAMECHARS = _string.ascii_letters + "_"
# one-character literal values that the parser is documented to treat as data
# but that coincide with syntax (property C03's alphabet, the exact-match part)
SYNTAX_VALUES = set("Xx|") | set(MODIFIERS)
SYNTAX_CHARS = "|;])}⟩Xx" + MODIFIERS + OPENERS

# the documented code page (documents/…/codepage; same 256 characters the
# interpreter accepts). Kept here so that the generator does not depend on the
# code under test for its alphabet; Table.from_repo() cross-checks it.
CODEPAGE = (
    "λƛ¬∧⟑∨⟇÷×«\n»°•ß†€½∆ø↔¢⌐æʀʁɾɽÞƈ∞¨ !\"#$%&'()*+,-./0123456789:;<=>?@"
    "ABCDEFGHIJKLMNOPQRSTUVWXYZ[\\]`^_abcdefghijklmnopqrstuvwxyz{|}~↑↓∴∵›‹∷¤ð→←βτȧḃċḋėḟġḣḭŀṁṅȯṗṙṡṫẇẋẏż√⟨⟩‛"
    "₀₁₂₃₄₅₆₇₈¶⁋§ε¡∑¦≈µȦḂĊḊĖḞĠḢİĿṀṄȮṖṘṠṪẆẊẎŻ₌₍⁰¹²∇⌈⌊¯±₴…□↳↲⋏⋎꘍ꜝ℅≤≥≠⁼ƒɖ∪∩⊍£¥⇧⇩ǍǎǏǐǑǒǓǔ⁽‡≬⁺↵⅛¼¾Π„‟"
)


# ---------------------------------------------------------------- own lexer
def model_tokenise(text):
    """Reference lexer (documents/specs/Lexer.md and the element reference):
    returns [(kind, value)]."""
    out = []
    i, n = 0, len(text)
    while i < n:
        c = text[i]
        i += 1
        if c == "\\":
            if i < n:
                out.append((CHARACTER, text[i]))
                i += 1
        elif c in "`«»":
            j = i
            buf = []
            while j < n and text[j] != c:
                if c == "`" and text[j] == "\\":
                    if j + 1 < n:
                        buf.append(text[j:j + 2])
                    j += 2
                else:
                    buf.append(text[j])
                    j += 1
            kind = STRING if c == "`" else COMPRESSED_NUMBER if c == "»" else COMPRESSED_STRING
            out.append((kind, "".join(buf)))
            i = min(j, n) + 1
        elif c in NUMCHARS:
            if c == "0" and not (i < n and text[i] in "°."):
                out.append((NUMBER, "0"))
                continue
            val = c
            while i < n and text[i] in NUMCHARS:
                cand = val + text[i]
                if cand.count("°") >= 2 or any(p.count(".") >= 2 for p in cand.split("°")):
                    break
                val = cand
                i += 1
            out.append((NUMBER, val))
        elif c == "‛":
            out.append((STRING, text[i:i + 2]))
            i += 2
        elif c in "→←":
            j = i
            while j < n and text[j] in NAMECHARS:
                j += 1
            out.append((VARIABLE_SET if c == "→" else VARIABLE_GET, text[i:j]))
            i = j
        elif c == "#":
            while i < n and text[i] != "\n":
                i += 1
            i += 1
        elif c in DIGRAPH_HEADS:
            if i < n and text[i] != "|":
                out.append((GENERAL, c + text[i]))
                i += 1
            else:
                out.append((GENERAL, c))
        elif c == "⁺":
            if i < n:
                out.append((CODEPAGE_NUMBER, text[i]))
                i += 1
        else:
            out.append((GENERAL, c))
    return out


def self_check(text, tokens):
    return model_tokenise(text) == [tuple(t) for t in tokens]


def repo_tokens(text):
    """The repository lexer's view, in the same (kind, value) form."""
    from vyxal import lexer

    return [(t.name.value, t.value) for t in lexer.tokenise(text)]


# ---------------------------------------------------------------- nodes
class Node:
    t = "?"
    fields = ()

    def __init__(self, *args, **kw):
        for f, v in zip(self.fields, args):
            setattr(self, f, v)
        for f, v in kw.items():
            setattr(self, f, v)
        for f in self.fields:
            if not hasattr(self, f):
                setattr(self, f, None)

    def __repr__(self):
        return f"{type(self).__name__}({', '.join(repr(getattr(self, f)) for f in self.fields)})"

    def __eq__(self, other):
        return type(self) is type(other) and all(getattr(self, f) == getattr(other, f) for f in self.fields)

    __hash__ = None


class Lit(Node):
    """kind: str (`…`), str2 (‛ab), char (\\c), num, cnum (»…»), cstr («…«), cpnum (⁺c).
    payload: for str the *escaped* source text between the back-quotes."""
    t = "lit"
    fields = ("kind", "payload")


class Var(Node):
    t = "var"
    fields = ("set", "name")


class Elem(Node):
    t = "elem"
    fields = ("key",)


class Brk(Node):
    t = "brk"


class Rec(Node):
    t = "rec"


class Comment(Node):
    t = "comment"
    fields = ("text",)


class Space(Node):
    t = "space"


class If(Node):
    t = "if"
    fields = ("branches",)


class For(Node):
    t = "for"
    fields = ("var", "body")


class While(Node):
    t = "while"
    fields = ("cond", "body")


class Lam(Node):
    t = "lam"
    fields = ("arity", "body")


class LamOp(Node):
    t = "lamop"
    fields = ("op", "body")


class ListLit(Node):
    t = "list"
    fields = ("items",)


class FnDef(Node):
    t = "fndef"
    fields = ("name", "params", "body")


class FnCall(Node):
    t = "fncall"
    fields = ("name",)


class Mod(Node):
    """mod: one of MODIFIERS; operands: exactly MOD_ARITY[mod] nodes that each
    produce one parse structure; fill: optional fillers (Space/Comment) before
    each operand."""
    t = "mod"
    fields = ("mod", "operands", "fill")


NODE_TYPES = {c.t: c for c in (Lit, Var, Elem, Brk, Rec, Comment, Space, If, For, While, Lam, LamOp,
                               ListLit, FnDef, FnCall, Mod)}
STRUCT_TYPES = (If, For, While, Lam, LamOp, ListLit, FnDef, FnCall)
FILLERS = (Comment, Space)


def is_filler(n):
    return isinstance(n, FILLERS)


def to_json(x):
    if isinstance(x, Node):
        d = {"t": x.t}
        for f in x.fields:
            d[f] = to_json(getattr(x, f))
        return d
    if isinstance(x, (list, tuple)):
        return [to_json(y) for y in x]
    return x


def from_json(x):
    if isinstance(x, dict) and "t" in x:
        cls = NODE_TYPES[x["t"]]
        return cls(**{f: from_json(x.get(f)) for f in cls.fields})
    if isinstance(x, list):
        return [from_json(y) for y in x]
    return x


def child_bodies(n):
    """[(label, list-of-nodes)] of a node, in source order. The list objects
    are the node's own (mutable) lists."""
    if isinstance(n, If):
        return [(f"if.{i}", b) for i, b in enumerate(n.branches)]
    if isinstance(n, For):
        return [("for", n.body)]
    if isinstance(n, While):
        return ([("while.cond", n.cond)] if n.cond is not None else []) + [("while.body", n.body)]
    if isinstance(n, Lam):
        return [("lam", n.body)]
    if isinstance(n, LamOp):
        return [("lamop", n.body)]
    if isinstance(n, ListLit):
        return [(f"list.{i}", b) for i, b in enumerate(n.items)]
    if isinstance(n, FnDef):
        return [("fndef", n.body)]
    if isinstance(n, Mod):
        out = []
        for i, o in enumerate(n.operands):
            if n.fill and n.fill[i]:
                out.append((f"mod.fill{i}", n.fill[i]))
        out.append(("mod.ops", n.operands))
        return out
    return []


def walk(ast, path=()):
    """Yield (node, path) for every node, pre-order; path = tuple of
    (ancestor node, label) from the outside in."""
    for n in ast:
        yield n, path
        for label, body in child_bodies(n):
            yield from walk(body, path + ((n, label),))


def literals(ast):
    return [n for n, _ in walk(ast) if isinstance(n, (Lit, Comment, Var))]


def count_nodes(ast):
    return sum(1 for _ in walk(ast))


def depth_of(ast):
    d = 0
    for n, path in walk(ast):
        k = sum(1 for a, _ in path if isinstance(a, STRUCT_TYPES)) + (1 if isinstance(n, STRUCT_TYPES) else 0)
        d = max(d, k)
    return d


# ---------------------------------------------------------------- serialiser
class _Piece:
    __slots__ = ("text", "tokens", "flag", "sep")

    def __init__(self, text, tokens, flag=None, sep=None):
        self.text = text
        self.tokens = tokens
        self.flag = flag  # None | "closer" | "strclose"
        self.sep = sep    # None | "num" | "var": what may merge with the next character


def _lit_pieces(n, out):
    k, p = n.kind, n.payload
    if k == "str":
        out.append(_Piece("`" + p, [(STRING, p)]))
        out.append(_Piece("`", [], "strclose"))
    elif k == "cnum":
        out.append(_Piece("»" + p, [(COMPRESSED_NUMBER, p)]))
        out.append(_Piece("»", [], "strclose"))
    elif k == "cstr":
        out.append(_Piece("«" + p, [(COMPRESSED_STRING, p)]))
        out.append(_Piece("«", [], "strclose"))
    elif k == "str2":
        assert len(p) == 2, p
        out.append(_Piece("‛" + p, [(STRING, p)]))
    elif k == "char":
        assert len(p) == 1, p
        out.append(_Piece("\\" + p, [(CHARACTER, p)]))
    elif k == "cpnum":
        assert len(p) == 1, p
        out.append(_Piece("⁺" + p, [(CODEPAGE_NUMBER, p)]))
    elif k == "num":
        out.append(_Piece(p, [(NUMBER, p)], sep="num"))
    else:
        raise ValueError(k)


def _g(ch):
    return _Piece(ch, [(GENERAL, ch)])


def _closer(ch):
    return _Piece(ch, [(GENERAL, ch)], "closer")


def _name_piece(text):
    """Names (function name, parameters, loop variable, lambda arity) are
    written verbatim; the lexer cuts them into letters, digraphs and numbers,
    and the parser joins the values again. The piece must end in `|`."""
    return _Piece(text, model_tokenise(text))


def _branches(bodies, out):
    for i, b in enumerate(bodies):
        if i:
            out.append(_g("|"))
        _emit(b, out)


def _emit(nodes, out):
    for n in nodes:
        if isinstance(n, Lit):
            _lit_pieces(n, out)
        elif isinstance(n, Var):
            out.append(_Piece(("→" if n.set else "←") + n.name,
                              [(VARIABLE_SET if n.set else VARIABLE_GET, n.name)], sep="var"))
        elif isinstance(n, Elem):
            out.append(_Piece(n.key, [(GENERAL, n.key)]))
        elif isinstance(n, Brk):
            out.append(_g("X"))
        elif isinstance(n, Rec):
            out.append(_g("x"))
        elif isinstance(n, Comment):
            assert "\n" not in n.text
            out.append(_Piece("#" + n.text + "\n", []))
        elif isinstance(n, Space):
            out.append(_g(" "))
        elif isinstance(n, If):
            out.append(_g("["))
            _branches(n.branches, out)
            out.append(_closer("]"))
        elif isinstance(n, For):
            out.append(_g("("))
            if n.var is not None:
                out.append(_name_piece(n.var + "|"))
            _emit(n.body, out)
            out.append(_closer(")"))
        elif isinstance(n, While):
            out.append(_g("{"))
            if n.cond is not None:
                _emit(n.cond, out)
                out.append(_g("|"))
            _emit(n.body, out)
            out.append(_closer("}"))
        elif isinstance(n, Lam):
            out.append(_g("λ"))
            if n.arity is not None:
                out.append(_name_piece(str(n.arity) + "|"))
            _emit(n.body, out)
            out.append(_closer(";"))
        elif isinstance(n, LamOp):
            out.append(_g(n.op))
            _emit(n.body, out)
            out.append(_closer(";"))
        elif isinstance(n, ListLit):
            out.append(_g("⟨"))
            _branches(n.items, out)
            out.append(_closer("⟩"))
        elif isinstance(n, FnDef):
            out.append(_g("@"))
            out.append(_name_piece(":".join([n.name] + [str(p) for p in n.params]) + "|"))
            _emit(n.body, out)
            out.append(_closer(";"))
        elif isinstance(n, FnCall):
            assert not n.name.endswith(tuple(DIGRAPH_HEADS)), n.name
            out.append(_g("@"))
            toks = model_tokenise(n.name)
            p = _Piece(n.name, toks)
            if toks and toks[-1][0] == NUMBER:
                p.sep = "num"
            out.append(p)
            out.append(_closer(";"))
        elif isinstance(n, Mod):
            assert len(n.operands) == MOD_ARITY[n.mod], n
            out.append(_g(n.mod))
            for i, o in enumerate(n.operands):
                assert not is_filler(o)
                if n.fill and n.fill[i]:
                    assert all(is_filler(f) for f in n.fill[i])
                    _emit(n.fill[i], out)
                _emit([o], out)
        else:
            raise TypeError(n)


class Ser:
    __slots__ = ("text", "tokens", "droppable", "n_struct_closers", "str_delim", "seps")

    def __init__(self, text, tokens, droppable, n_struct_closers, str_delim, seps):
        self.text = text
        self.tokens = tokens
        self.droppable = droppable
        self.n_struct_closers = n_struct_closers
        self.str_delim = str_delim
        self.seps = seps


def serialise_full(ast):
    pieces = []
    _emit(ast, pieces)
    # separators
    outp = []
    seps = 0
    for p in pieces:
        if outp and p.text:
            prev = outp[-1]
            c = p.text[0]
            if (prev.sep == "num" and c in NUMCHARS) or (prev.sep == "var" and c in NAMECHARS):
                outp.append(_g(" "))
                seps += 1
        outp.append(p)
    text = "".join(p.text for p in outp)
    tokens = [t for p in outp for t in p.tokens]
    k = 0
    while k < len(outp) and outp[-1 - k].flag == "closer":
        k += 1
    delim = ""
    if k < len(outp) and outp[-1 - k].flag == "strclose":
        delim = outp[-1 - k].text
    return Ser(text, tokens, k + len(delim), k, delim, seps)


def serialise(ast, closed=True, drop=None):
    """Program text. closed=False drops every droppable trailing closer;
    drop=k drops exactly k characters of them."""
    s = serialise_full(ast)
    if drop is None:
        drop = 0 if closed else s.droppable
    if not 0 <= drop <= s.droppable:
        raise ValueError(f"drop={drop} outside 0..{s.droppable}")
    return s.text[: len(s.text) - drop] if drop else s.text


def intended_tokens(ast, drop=0):
    s = serialise_full(ast)
    return _tokens_after_drop(s, drop)


def _tokens_after_drop(s, drop):
    gone = min(drop, s.n_struct_closers)
    return s.tokens[: len(s.tokens) - gone] if gone else list(s.tokens)


def trailing_closers(ast):
    s = serialise_full(ast)
    return s.text[len(s.text) - s.droppable:] if s.droppable else ""


def truncations(ast, ser=None):
    """[(k, text without its last k droppable characters, intended tokens)]."""
    s = ser or serialise_full(ast)
    return [(k, s.text[: len(s.text) - k], _tokens_after_drop(s, k)) for k in range(1, s.droppable + 1)]


# ---------------------------------------------------------------- element table
class Table:
    """Element keys usable by the generator. `keys` are those that the
    reference lexer reads as one GENERAL token and that are not syntax;
    `excluded` lists the rest (C20's business)."""

    def __init__(self, keys, modifiers=MODIFIERS):
        self.all_keys = list(keys)
        syntax = set(OPENERS + CLOSERS + "| Xx") | set(MODIFIERS)
        self.keys = []
        self.excluded = []
        for k in self.all_keys:
            if k in syntax or model_tokenise(k) != [(GENERAL, k)] or model_tokenise(k + "1") != [(GENERAL, k), (NUMBER, "1")]:
                self.excluded.append(k)
            else:
                self.keys.append(k)
        self.modifiers = modifiers

    @classmethod
    def from_repo(cls):
        from vyxal import elements as E

        return cls(list(E.elements))


# ---------------------------------------------------------------- payloads
_CP_NO_NL = CODEPAGE.replace("\n", "")
_PLAIN = _string.ascii_letters + _string.digits + " !$%*+,-./:<=>?^_"


def _rchar(rnd, exclude=""):
    while True:
        x = rnd.random()
        if x < 0.45:
            c = rnd.choice(_PLAIN)
        elif x < 0.75:
            c = rnd.choice(SYNTAX_CHARS + "`\"\\#\n'")
        else:
            c = rnd.choice(CODEPAGE)
        if c not in exclude:
            return c


def str_payload(rnd, maxlen=4):
    """Escaped source text of a back-quoted string: plain characters or
    backslash + any character."""
    out = []
    for _ in range(rnd.randint(0, maxlen)):
        if rnd.random() < 0.15:
            out.append("\\" + _rchar(rnd))
        else:
            out.append(_rchar(rnd, exclude="`\\"))
    return "".join(out)


NUM_TEXTS = ["0", "1", "2", "7", "10", "42", "123", "1.5", "0.5", ".5", ".", "5.", "°", "1°", "°1", "1°2",
             ".°.", "1.5°.5", "0°", "0.0", "100", "3.14", "9", "°.", "2°05"]


def num_text(rnd):
    if rnd.random() < 0.6:
        return rnd.choice(NUM_TEXTS)
    a = str(rnd.randint(0, 999)) if rnd.random() < 0.8 else ""
    if rnd.random() < 0.3:
        a += "." + "".join(rnd.choice(_string.digits) for _ in range(rnd.randint(0, 2)))
    if rnd.random() < 0.2:
        a += "°"
        if rnd.random() < 0.6:
            a += "".join(rnd.choice(_string.digits) for _ in range(rnd.randint(1, 2)))
    return a or "1"


def name_text(rnd, minlen=0, maxlen=4, digits=False, final_k=True):
    n = rnd.randint(minlen, maxlen)
    alpha = NAMECHARS + ("kkk" if n > 1 else "")
    s = "".join(rnd.choice(alpha) for _ in range(n))
    if digits and s and rnd.random() < 0.3:
        s += str(rnd.randint(0, 12))
    if not final_k:
        while s.endswith("k"):
            s = s[:-1] + rnd.choice("abfgz_")
    return s


LIT_KINDS = ("str", "str2", "char", "num", "cnum", "cstr", "cpnum")


class Gen:
    """Random ASTs. payload: "benign" never produces a literal whose whole
    value is one of the one-character syntax values (X x | and the modifiers:
    property C03's defect class), "hostile" makes such values likely, "mixed"
    does not care."""

    def __init__(self, table, payload="benign"):
        self.table = table
        self.payload = payload
        self.keys = table.keys

    # ---- leaves
    def lit(self, rnd, kind=None):
        kind = kind or rnd.choice(LIT_KINDS)
        for _ in range(50):
            if kind == "str":
                p = str_payload(rnd)
            elif kind == "str2":
                p = _rchar(rnd) + _rchar(rnd)
            elif kind in ("char", "cpnum"):
                p = _rchar(rnd)
            elif kind == "num":
                p = num_text(rnd)
            elif kind == "cnum":
                p = "".join(_rchar(rnd, exclude="»") for _ in range(rnd.randint(0, 4)))
            elif kind == "cstr":
                p = "".join(_rchar(rnd, exclude="«") for _ in range(rnd.randint(0, 4)))
            else:
                raise ValueError(kind)
            if self.payload == "hostile" and kind != "num" and rnd.random() < 0.6:
                p = rnd.choice(sorted(SYNTAX_VALUES))
                if kind == "str2":
                    p = p + rnd.choice(sorted(SYNTAX_VALUES))
            if self.payload == "benign" and p in SYNTAX_VALUES:
                continue
            return Lit(kind, p)
        return Lit("num", "1")

    def var(self, rnd):
        return Var(rnd.random() < 0.5, name_text(rnd, 0, 4))

    def elem(self, rnd):
        return Elem(rnd.choice(self.keys))

    def comment(self, rnd):
        return Comment("".join(_rchar(rnd, exclude="\n") for _ in range(rnd.randint(0, 5))))

    def leaf(self, rnd):
        x = rnd.random()
        if x < 0.55:
            return self.elem(rnd)
        if x < 0.82:
            return self.lit(rnd)
        if x < 0.90:
            return self.var(rnd)
        if x < 0.95:
            return Brk()
        return Rec()

    # ---- structures
    def params(self, rnd):
        out = []
        for _ in range(rnd.choice([0, 0, 1, 1, 1, 2, 2, 3])):
            x = rnd.random()
            if x < 0.45:
                out.append(str(rnd.choice([0, 1, 2, 3, 10])))
            elif x < 0.85:
                out.append(name_text(rnd, 1, 3, digits=True))
            else:
                out.append("*")
        return out

    def structure(self, rnd, depth, st, spine):
        kind = rnd.choice(OPENERS)
        d = depth - 1

        def body(sp=False):
            return self.body(rnd, d, st, sp)

        if kind == "[":
            nb = rnd.choice([1, 1, 2, 2, 3, 4, 5, 6, 7])
            return If([body(spine and i == nb - 1) for i in range(nb)])
        if kind == "(":
            var = None
            if rnd.random() < 0.5:
                var = name_text(rnd, 1, 3, digits=rnd.random() < 0.2) if rnd.random() < 0.9 else ""
            return For(var, body(spine))
        if kind == "{":
            cond = body() if rnd.random() < 0.6 else None
            return While(cond, body(spine))
        if kind == "λ":
            arity = rnd.choice([0, 1, 2, 3, 10]) if rnd.random() < 0.5 else None
            return Lam(arity, body(spine))
        if kind in "ƛ'µ":
            return LamOp(kind, body(spine))
        if kind == "⟨":
            ni = rnd.choice([1, 1, 2, 3, 4])
            return ListLit([body(spine and i == ni - 1) for i in range(ni)])
        # '@'
        if rnd.random() < 0.3:
            return FnCall(name_text(rnd, 1, 4, digits=True, final_k=False))
        return FnDef(name_text(rnd, 1, 4, digits=rnd.random() < 0.3), self.params(rnd), body(spine))

    def operand(self, rnd, depth, st, spine=False):
        x = rnd.random()
        if spine and depth > 0 and st["left"] > 0:
            x = 0.99 if rnd.random() < 0.8 else x
        st["left"] -= 1
        if x < 0.5 or st["left"] <= 0:
            return self.elem(rnd)
        if x < 0.65:
            return self.lit(rnd, "str" if spine and rnd.random() < 0.5 else None)
        if x < 0.70:
            return self.var(rnd)
        if x < 0.76:
            return Brk() if rnd.random() < 0.5 else Rec()
        if x < 0.86 or depth <= 0:
            return self.modifier(rnd, depth, st, spine)
        return self.structure(rnd, depth, st, spine)

    def modifier(self, rnd, depth, st, spine=False):
        m = rnd.choice(MODIFIERS)
        ar = MOD_ARITY[m]
        ops = [self.operand(rnd, depth, st, spine and i == ar - 1) for i in range(ar)]
        fill = []
        for _ in range(ar):
            f = []
            if rnd.random() < 0.08:
                f.append(Space() if rnd.random() < 0.6 else self.comment(rnd))
            fill.append(f)
        return Mod(m, ops, fill)

    def body(self, rnd, depth, st, spine=False, top=False):
        n = rnd.choice([0, 1, 1, 2, 2, 3, 3, 4, 5]) if not top else rnd.choice([0, 1, 2, 3, 4, 5, 6, 7, 8])
        if spine and n == 0:
            n = 1
        out = []
        for i in range(n):
            if st["left"] <= 0:
                break
            st["left"] -= 1
            last = spine and i == n - 1
            x = rnd.random()
            if last and rnd.random() < st["spine_p"]:
                if depth > 0:
                    out.append(self.structure(rnd, depth, st, True) if rnd.random() < 0.8
                               else self.modifier(rnd, depth, st, True))
                else:
                    y = rnd.random()
                    out.append(self.lit(rnd, rnd.choice(["str", "cnum", "cstr"])) if y < 0.6 else
                               self.modifier(rnd, 0, st, True) if y < 0.75 else self.leaf(rnd))
                continue
            if x < 0.32 and depth > 0:
                out.append(self.structure(rnd, depth, st, False))
            elif x < 0.40:
                out.append(self.modifier(rnd, depth, st, False))
            elif x < 0.42:
                out.append(Space())
            elif x < 0.45:
                out.append(self.comment(rnd))
            else:
                out.append(self.leaf(rnd))
        return out

    def gen_program(self, rnd, depth=4, size=30, spine_p=0.0):
        st = {"left": size, "spine_p": spine_p}
        return self.body(rnd, depth, st, spine_p > 0, top=True)


def gen_program(rnd, depth=4, table=None, payload="benign", size=30, spine_p=0.0):
    """Convenience wrapper: (ast, text)."""
    g = Gen(table or Table.from_repo(), payload)
    ast = g.gen_program(rnd, depth, size, spine_p)
    return ast, serialise(ast)


# ---------------------------------------------------------------- exhaustive small ASTs
def enum_asts(budget, leaves, mods=("v", "₌"), structs="[({λƛ⟨@", max_if=4, max_items=3, select=None):
    """All ASTs (lists of nodes) whose text has at most `budget` symbols once
    the trailing closers are left off. One symbol = a leaf, an opener (`@f`
    counts as one), a `|`, a closer that is not on the right spine, a
    modifier. `leaves` is a list of zero-argument callables that build a
    fresh leaf node. `select(index)` (optional) picks which ASTs are built
    (the enumeration order is deterministic), so that workers can share one
    enumeration."""

    from functools import lru_cache

    # work on immutable "shapes", build nodes at the end
    # shape: ("leaf", i) | ("if", (bodies)) | ("for", body) | ("while", cond|None, body) | ("lam", body)
    #        | ("lamop", body) | ("list", (bodies)) | ("fndef", body) | ("fncall",) | ("mod", m, (ops))

    @lru_cache(maxsize=None)
    def seqs(n, spine):
        """all sequences (tuples of shapes) of exact cost n; spine: the
        sequence ends the program (trailing closers are free)."""
        if n == 0:
            return ((),)
        out = []
        for first in range(1, n + 1):
            rest_n = n - first
            if rest_n == 0:
                for nd in nodes(first, spine):
                    out.append((nd,))
            else:
                heads = nodes(first, False)
                if not heads:
                    continue
                tails = seqs(rest_n, spine)
                for nd in heads:
                    for tl in tails:
                        if tl:
                            out.append((nd,) + tl)
        return tuple(out)

    @lru_cache(maxsize=None)
    def multi(n, k, spine):
        """k bodies separated by k-1 pipes, total cost exactly n (pipes included)."""
        if k == 1:
            return tuple((b,) for b in seqs(n, spine))
        out = []
        for a in range(0, n):  # first body cost a, then a pipe
            firsts = seqs(a, False)
            for rest in multi(n - a - 1, k - 1, spine):
                for f in firsts:
                    out.append((f,) + rest)
        return tuple(out)

    @lru_cache(maxsize=None)
    def nodes(n, spine):
        """all single nodes of exact cost n"""
        out = []
        if n == 1:
            out.extend(("leaf", i) for i in range(len(leaves)))
        close = 0 if spine else 1
        inner = n - 1 - close  # opener + closer
        if inner >= 0:
            if "[" in structs:
                for k in range(1, max_if + 1):
                    if inner - (k - 1) >= 0:
                        out.extend(("if", bs) for bs in multi(inner, k, spine))
            if "(" in structs:
                out.extend(("for", b) for b in seqs(inner, spine))
            if "{" in structs:
                out.extend(("while", None, b) for b in seqs(inner, spine))
                if inner >= 1:
                    out.extend(("while", bs[0], bs[1]) for bs in multi(inner, 2, spine))
            if "λ" in structs:
                out.extend(("lam", b) for b in seqs(inner, spine))
            if "ƛ" in structs:
                out.extend(("lamop", b) for b in seqs(inner, spine))
            if "⟨" in structs:
                for k in range(1, max_items + 1):
                    if inner - (k - 1) >= 0:
                        out.extend(("list", bs) for bs in multi(inner, k, spine))
            if "@" in structs:
                if inner == 0:
                    out.append(("fncall",))
                if inner >= 1:
                    out.extend(("fndef", b) for b in seqs(inner - 1, spine))
        for m in mods:
            ar = MOD_ARITY[m]
            if n - 1 >= ar:
                out.extend(("mod", m, ops) for ops in opsets(n - 1, ar, spine))
        return tuple(out)

    @lru_cache(maxsize=None)
    def opsets(n, k, spine):
        if k == 1:
            return tuple((nd,) for nd in nodes(n, spine))
        out = []
        for a in range(1, n - (k - 1) + 1):
            for f in nodes(a, False):
                for rest in opsets(n - a, k - 1, spine):
                    out.append((f,) + rest)
        return tuple(out)

    def build_seq(seq):
        return [build(s) for s in seq]

    def build(s):
        t = s[0]
        if t == "leaf":
            return leaves[s[1]]()
        if t == "if":
            return If([build_seq(b) for b in s[1]])
        if t == "for":
            return For(None, build_seq(s[1]))
        if t == "while":
            return While(None if s[1] is None else build_seq(s[1]), build_seq(s[2]))
        if t == "lam":
            return Lam(None, build_seq(s[1]))
        if t == "lamop":
            return LamOp("ƛ", build_seq(s[1]))
        if t == "list":
            return ListLit([build_seq(b) for b in s[1]])
        if t == "fndef":
            return FnDef("f", [], build_seq(s[1]))
        if t == "fncall":
            return FnCall("f")
        if t == "mod":
            return Mod(s[1], [build(o) for o in s[2]], None)
        raise ValueError(s)

    idx = 0
    for total in range(0, budget + 1):
        for seq in seqs(total, True):
            if select is None or select(idx):
                yield build_seq(seq)
            idx += 1


# ---------------------------------------------------------------- shrinking
def _clone(ast):
    return from_json(to_json(ast))


def _payload_units(n):
    """A literal's payload cut into units that can be deleted independently
    (an escape `\\c` inside a back-quoted string is one unit)."""
    p = n.payload
    if n.kind != "str":
        return list(p)
    out, i = [], 0
    while i < len(p):
        if p[i] == "\\" and i + 1 < len(p):
            out.append(p[i:i + 2])
            i += 2
        else:
            out.append(p[i])
            i += 1
    return out


def _rebuild(anc, label, child):
    """A copy of ancestor `anc` that keeps only `child` (in the body called
    `label`); other bodies empty, other modifier operands `1`."""
    if isinstance(anc, If):
        k = int(label.split(".")[1])
        return If([[child] if i == k else [] for i in range(len(anc.branches))])
    if isinstance(anc, For):
        return For(anc.var, [child])
    if isinstance(anc, While):
        if label == "while.cond":
            return While([child], [])
        return While(None if anc.cond is None else [], [child])
    if isinstance(anc, Lam):
        return Lam(anc.arity, [child])
    if isinstance(anc, LamOp):
        return LamOp(anc.op, [child])
    if isinstance(anc, ListLit):
        k = int(label.split(".")[1])
        return ListLit([[child] if i == k else [] for i in range(len(anc.items))])
    if isinstance(anc, FnDef):
        return FnDef(anc.name, list(anc.params), [child])
    if isinstance(anc, Mod) and label == "mod.ops":
        return Mod(anc.mod, [child if o is child or o is getattr(child, "_orig", None) else Lit("num", "1")
                             for o in anc.operands], None)
    return None


def extract_chain(ast, idx, nodes=None):
    """A new AST that keeps only node number `idx` (walk order; must be a
    node without children of its own) and the chain of its ancestors, every
    other body emptied and other modifier operands replaced by `1`."""
    nodes = nodes if nodes is not None else list(walk(ast))
    if idx >= len(nodes):
        return None
    target, path = nodes[idx]
    if is_filler(target) or any(b for _, b in child_bodies(target)):
        return None
    cur = _clone([target])[0]
    cur._orig = target
    for anc, label in reversed(path):
        nxt = _rebuild(anc, label, cur)
        if nxt is None:
            return None
        nxt._orig = anc
        cur = nxt
    return [cur]


def _suspicion(n):
    if isinstance(n, (Brk, Rec)):
        return 0
    if isinstance(n, Lit) and (n.payload in SYNTAX_VALUES or "\\" in n.payload):
        return 1
    if isinstance(n, Lit):
        return 3
    if isinstance(n, Elem):
        return 2 if len(n.key) > 1 else 4
    return 5


def shrink(ast, still_fails, max_trials=400):
    """Greedy minimiser: repeatedly delete a node, hoist a structure's body in
    its place, drop a branch, or replace a leaf by `1`, as long as
    `still_fails(ast)` stays true. Returns a (new) minimal AST."""
    cur = _clone(ast)
    trials = 0

    def candidates(a):
        # enumerate edits as functions applied to a fresh clone, addressed by walk index
        nodes = list(walk(a))
        for idx, (n, path) in enumerate(nodes):
            yield ("del", idx)
            if child_bodies(n) and not isinstance(n, Mod):
                for bi in range(len(child_bodies(n))):
                    yield ("hoist", idx, bi)
            if isinstance(n, Mod):
                for oi in range(len(n.operands)):
                    yield ("modop", idx, oi)
            if isinstance(n, (If, ListLit)):
                brs = n.branches if isinstance(n, If) else n.items
                if len(brs) > 1:
                    for bi in range(len(brs)):
                        yield ("dropbranch", idx, bi)
            if isinstance(n, While) and n.cond is not None:
                yield ("nocond", idx)
            if isinstance(n, (Lit, Var, Elem)) and not (isinstance(n, Lit) and n.kind == "num" and n.payload == "1"):
                yield ("one", idx)
            if isinstance(n, Lit) and n.kind in ("str", "cnum", "cstr") and len(n.payload) > 1:
                for ui in range(len(_payload_units(n))):
                    yield ("unit", idx, ui)
            if isinstance(n, Lit) and n.kind == "str2":
                for ui in range(2):
                    if n.payload[ui] != "a":
                        yield ("chr", idx, ui)
            if isinstance(n, Comment) and n.text:
                yield ("nocomment", idx)

    def container_of(a, target):
        """(list, index) holding `target` (by identity)."""
        stack = [a]
        while stack:
            lst = stack.pop()
            for i, n in enumerate(lst):
                if n is target:
                    return lst, i
                for _, b in child_bodies(n):
                    stack.append(b)
        return None, None

    def apply(a, ed):
        nodes = list(walk(a))
        if ed[1] >= len(nodes):
            return None
        n, path = nodes[ed[1]]
        lst, i = container_of(a, n)
        if lst is None:
            return None
        in_mod_ops = bool(path) and isinstance(path[-1][0], Mod) and path[-1][1] == "mod.ops"
        if ed[0] == "del":
            if in_mod_ops:
                return None
            del lst[i]
        elif ed[0] == "hoist":
            body = child_bodies(n)[ed[2]][1]
            if in_mod_ops:
                return None
            lst[i:i + 1] = list(body)
        elif ed[0] == "modop":
            op = n.operands[ed[2]]
            if in_mod_ops:
                lst[i] = op
            else:
                lst[i:i + 1] = [op]
        elif ed[0] == "dropbranch":
            brs = n.branches if isinstance(n, If) else n.items
            del brs[ed[2]]
        elif ed[0] == "nocond":
            n.cond = None
        elif ed[0] == "one":
            lst[i] = Lit("num", "1")
        elif ed[0] == "unit":
            us = _payload_units(n)
            del us[ed[2]]
            n.payload = "".join(us)
        elif ed[0] == "chr":
            n.payload = n.payload[:ed[2]] + "a" + n.payload[ed[2] + 1:]
        elif ed[0] == "nocomment":
            n.text = ""
        return a

    # phase 1: try the programs that keep only one leaf and its chain of ancestors
    # (cheap, and minimal for every single-cause failure)
    all_nodes = list(walk(cur))
    n_nodes = len(all_nodes)
    if n_nodes > 4:
        for idx in sorted(range(n_nodes), key=lambda i: (_suspicion(all_nodes[i][0]), i)):
            if trials >= max_trials:
                break
            cand = extract_chain(cur, idx, all_nodes)
            if cand is None:
                continue
            trials += 1
            try:
                ok = still_fails(cand)
            except Exception:  # noqa
                ok = False
            if ok:
                cur = cand
                break

    progress = True
    while progress and trials < max_trials:
        progress = False
        for ed in list(candidates(cur)):
            if trials >= max_trials:
                break
            cand = apply(_clone(cur), ed)
            if cand is None:
                continue
            trials += 1
            try:
                ok = still_fails(cand)
            except Exception:  # noqa
                ok = False
            if ok:
                cur = cand
                progress = True
                break
    return cur


def skeleton(ast):
    """Text of the AST with leaves abstracted (elements → e, literals → l,
    variables → a) – a readable shape for mechanism tags."""
    def ab(nodes):
        out = []
        for n in nodes:
            if isinstance(n, Elem):
                out.append(Elem("e"))
            elif isinstance(n, Lit):
                out.append(Elem("l"))
            elif isinstance(n, Var):
                out.append(Elem("a"))
            elif is_filler(n):
                continue
            else:
                m = _clone([n])[0]
                for _, b in child_bodies(m):
                    b[:] = ab(b)
                if isinstance(m, Mod):
                    m.fill = None
                if isinstance(m, For) and m.var:
                    m.var = "n"
                if isinstance(m, FnDef):
                    m.name, m.params = "f", []
                if isinstance(m, FnCall):
                    m.name = "f"
                out.append(m)
        return out

    return serialise(ab(ast))
