"""G-val: pure-data value specs (see lib/values.from_spec / spec_plain).

A spec is JSON: int | str | {"q":[p,q]} | [spec...] | {"lazy":[spec...]} |
{"fn": "<vyxal lambda text>"}.  The same spec can be materialised twice: once
as the argument handed to the code under test, once (via spec_plain) as the
expected snapshot, so no oracle ever depends on an object the code could have
mutated."""
from __future__ import annotations

import random

SMALL_INTS = [0, 1, 2, 3, 5, 7, 10, -1, -2, -7, 12, 100]
STRINGS = ["", "a", "ab", "abc", "Hello", "a b", "0", "12", "zz top", "A", "xyz", "aba"]
FUNCS = ["λ1|d;", "λ1|›;", "λ2|+;", "λ1|2%;", "λ1|N;", "λ2|*;", "λ1|:;"]


def rnd_int(r, big=False):
    if big and r.random() < 0.2:
        return r.randint(-10**6, 10**6)
    if r.random() < 0.6:
        return r.choice(SMALL_INTS)
    return r.randint(-20, 20)


def rnd_rat(r):
    q = r.choice([2, 3, 4, 5, 7, 10])
    p = r.randint(-15, 15)
    from math import gcd

    g = gcd(p, q)
    p, q = p // g, q // g
    if q == 1:
        return p
    return {"q": [p, q]}


def rnd_scalar(r, strings=True, rats=True):
    x = r.random()
    if strings and x < 0.2:
        return r.choice(STRINGS)
    if rats and x < 0.35:
        return rnd_rat(r)
    return rnd_int(r)


def rnd_list(r, depth=2, maxlen=5, strings=True, rats=True, lazy_p=0.0, minlen=0):
    n = r.randint(minlen, maxlen)
    items = []
    for _ in range(n):
        if depth > 1 and r.random() < 0.3:
            items.append(rnd_list(r, depth - 1, max(1, maxlen - 1), strings, rats, lazy_p))
        else:
            items.append(rnd_scalar(r, strings, rats))
    if r.random() < lazy_p:
        return {"lazy": items}
    return items


def rnd_value(r, depth=2, strings=True, rats=True, lazy_p=0.3, funcs=False):
    x = r.random()
    if funcs and x < 0.08:
        return {"fn": r.choice(FUNCS)}
    if x < 0.45:
        return rnd_scalar(r, strings, rats)
    return rnd_list(r, depth, 5, strings, rats, lazy_p)


def pool(seed, n=40, **kw):
    r = random.Random(seed)
    return [rnd_value(r, **kw) for _ in range(n)]


def shape_of(spec):
    """Coarse shape used to count *distinct* argument shapes."""
    if isinstance(spec, bool):
        return "b"
    if isinstance(spec, int):
        return "i"
    if isinstance(spec, str):
        return "s"
    if isinstance(spec, dict):
        if "q" in spec:
            return "q"
        if "fn" in spec:
            return "f"
        if "lazy" in spec:
            return "Z[" + ",".join(sorted({shape_of(x) for x in spec["lazy"]})) + "]"
    if isinstance(spec, list):
        return "L[" + ",".join(sorted({shape_of(x) for x in spec})) + "]"
    return "?"
