"""G-struct: programs over the closed structure core, built as an AST first.

Node forms (JSON lists):
  ["num", int>=0]            ["el", key]            ["vset", name]  ["vget", name]
  ["if", [body, body...]]    1-4 branches (odd positions after the first are conditions)
  ["for", name|None, body]   ["while", cond|None, body]
  ["lam", arity|None, body]  ["map", body] ["filter", body] ["sort", body]
  ["list", [body...]]        ["def", name, [params], body]  ["call", name]
  ["mod", ch, [operand nodes]]   ["brk"]  ["rec"]
A body is a list of nodes.

`serialise` writes program text, putting a space where the lexer would merge
tokens; it also returns the intended token values so the harness can check the
generator against the real lexer (a mismatch is a generator bug: the case is
discarded and counted, never a verdict)."""
from __future__ import annotations

import random

PURE_ELS = ["+", "-", "*", "<", ">", "=", "›", "‹", "d", "N", ":", "D", "$", "_", "w", '"',
            "W", "^", "!", "n", "L", "₀", "u", "∇",
            "ɾ", "ʀ", "f", "h", "t", "Ṙ", "U", "∑", "G", "g", "J", "p", "c", "ɾ", "ɾ"]
IMPURE_ELS = ["?", "£", "¥", "⅛", "¾", ",", "₴", "…"]
CALL_ELS = ["†", "M", "F"]
MONADIC_MODS = ["v", "&", "~", "ß", "ƒ", "ɖ", "⁽"]
DYADIC_MODS = ["₌", "₍", "‡"]
TRIADIC_MODS = ["≬"]
ARITY = {"+": 2, "-": 2, "*": 2, "<": 2, ">": 2, "=": 2, "›": 1, "‹": 1, "d": 1, "N": 1, ":": 1,
         "D": 1, "$": 2, "_": 1, "w": 1, '"': 2, "W": 0, "^": 0, "!": 0, "n": 0, "L": 1, "₀": 0,
         "u": 0, "∇": 3, "?": 0, "£": 1, "¥": 0, "⅛": 1, "¾": 0, ",": 1, "₴": 1, "…": 1,
         "†": 1, "M": 2, "F": 2, "ɾ": 1, "ʀ": 1, "f": 1, "h": 1, "t": 1, "Ṙ": 1, "U": 1, "∑": 1, "G": 1,
         "g": 1, "J": 2, "p": 2, "c": 2}
VAR_NAMES = ["a", "b", "cc"]
FN_NAMES = ["f", "g"]


# --------------------------------------------------------------------------
# serialisation
# --------------------------------------------------------------------------
def _join(parts):
    out = ""
    for p in parts:
        if not p:
            continue
        if out and out[-1] in "0123456789." and p[0] in "0123456789.°":
            out += " "
        out += p
    return out


def ser_body(body, toks):
    return _join([ser_node(n, toks) for n in body])


def ser_node(n, toks):
    k = n[0]
    if k == "num":
        s = str(n[1])
        toks.append(s)
        return s
    if k == "el":
        toks.append(n[1])
        return n[1]
    if k == "vset":
        toks.append(n[1])
        return "→" + n[1] + " "
    if k == "vget":
        toks.append(n[1])
        return "←" + n[1] + " "
    if k == "probe_exec":
        toks.append("7")
        toks.append("Ė")
        return "`7`Ė"
    if k == "brk":
        toks.append("X")
        return "X"
    if k == "rec":
        toks.append("x")
        return "x"
    if k == "if":
        toks.append("[")
        parts = []
        for i, b in enumerate(n[1]):
            if i:
                toks.append("|")
            parts.append(ser_body(b, toks))
        toks.append("]")
        return "[" + "|".join(parts) + "]"
    if k == "for":
        toks.append("(")
        s = "("
        if n[1] is not None:
            toks.append(("RAW", n[1]))  # name chars are lexed as one-character tokens
            toks.append("|")
            s += n[1] + "|"
        s += ser_body(n[2], toks)
        toks.append(")")
        return s + ")"
    if k == "while":
        toks.append("{")
        s = "{"
        if n[1] is not None:
            s += ser_body(n[1], toks) + "|"
            toks.append("|")
        s += ser_body(n[2], toks)
        toks.append("}")
        return s + "}"
    if k == "lam":
        toks.append("λ")
        s = "λ"
        if n[1] is not None:
            toks.append(str(n[1]))
            toks.append("|")
            s += str(n[1]) + "|"
        s += ser_body(n[2], toks)
        toks.append(";")
        return s + ";"
    if k in ("map", "filter", "sort"):
        ch = {"map": "ƛ", "filter": "'", "sort": "µ"}[k]
        toks.append(ch)
        s = ch + ser_body(n[1], toks)
        toks.append(";")
        return s + ";"
    if k == "list":
        toks.append("⟨")
        parts = []
        for i, b in enumerate(n[1]):
            if i:
                toks.append("|")
            parts.append(ser_body(b, toks))
        toks.append("⟩")
        return "⟨" + "|".join(parts) + "⟩"
    if k == "def":
        toks.append("@")
        head = n[1] + "".join(":" + str(p) for p in n[2])
        toks.append(("RAW", head))
        toks.append("|")
        s = "@" + head + "|" + ser_body(n[3], toks)
        toks.append(";")
        return s + ";"
    if k == "call":
        toks.append("@")
        toks.append(("RAW", n[1]))
        toks.append(";")
        return "@" + n[1] + ";"
    if k == "mod":
        toks.append(n[1])
        return n[1] + _join([ser_node(o, toks) for o in n[2]])
    raise ValueError(n)


def serialise(program):
    toks = []
    text = ser_body(program, toks)
    return text, toks


def check_tokens(text, toks, tokenise):
    """Compare the real lexer's output with the intended token values."""
    want = []
    for t in toks:
        if isinstance(t, tuple):
            want.extend(list(t[1]))
        else:
            want.append(t)
    got = [t.value for t in tokenise(text) if not (t.value == " " and t.name.value == "general")]
    return got == want


# --------------------------------------------------------------------------
# generation
# --------------------------------------------------------------------------
class Cfg:
    def __init__(self, **kw):
        self.max_depth = 4
        self.max_nodes = 30
        self.p_struct = 0.35
        self.p_break = 0.08
        self.p_print = 0.08
        self.p_input = 0.08
        self.break_density = 1.0
        self.allow_recurse = True
        self.allow_modtail = False   # X / x after a modifier in the same body (a known finding)
        self.__dict__.update(kw)


class Gen:
    def __init__(self, rnd, cfg=None):
        self.r = rnd
        self.cfg = cfg or Cfg()
        self.nodes = 0
        self.defined = []   # function names defined so far at top level: (name, nparams)
        self.vars = []      # variable names assigned so far at top level

    # env: dict(depth, pure(bool: lazily evaluated body), loop(bool), fn('lam'|'def'|None),
    #           top(bool: top-level variable scope), item(bool))
    def body(self, env, lo=1, hi=5):
        n = self.r.randint(lo, hi)
        out = []
        for _ in range(n):
            if self.nodes >= self.cfg.max_nodes:
                break
            node = self.node(env)
            out.append(node)
            if node[0] == "mod" and not self.cfg.allow_modtail and not env.get("modtail"):
                env = dict(env)
                env["modtail"] = True
        return out

    def num(self):
        r = self.r
        x = r.random()
        if x < 0.5:
            return ["num", r.randint(0, 4)]
        if x < 0.9:
            return ["num", r.randint(0, 12)]
        return ["num", r.choice([0, 1, 10, 17, 100])]

    def element(self, env):
        r = self.r
        x = r.random()
        if not env["pure"]:
            if x < self.cfg.p_print:
                return ["el", r.choice([",", "₴", "…"])]
            if x < self.cfg.p_print + self.cfg.p_input:
                return ["el", "?"]
            if x < self.cfg.p_print + self.cfg.p_input + 0.06:
                return ["el", r.choice(["£", "¥", "⅛", "¾"])]
        if r.random() < 0.12:
            return ["el", "n"]
        return ["el", r.choice(PURE_ELS)]

    def node(self, env):
        r = self.r
        self.nodes += 1
        d = env["depth"]
        x = r.random()
        if x < 0.30:
            return self.num()
        if d < self.cfg.max_depth and x < 0.30 + self.cfg.p_struct:
            return self.struct(env)
        if (env["loop"] or env["fn"]) and not env.get("modtail") and not env.get("nobreak") \
                and r.random() < self.cfg.p_break * self.cfg.break_density:
            if env["loop"] or env["fn"] == "lam" or env["fn"] == "def":
                if r.random() < 0.7 or not self.cfg.allow_recurse or not env["loop"]:
                    return ["brk"]
                return ["rec"]
        if env["top"] and not env["pure"] and r.random() < 0.07:
            nm = r.choice(VAR_NAMES)
            if nm in self.vars and r.random() < 0.6:
                return ["vget", nm]
            self.vars.append(nm)
            return ["vset", nm]
        if not env["pure"] and self.vars and r.random() < 0.04:
            return ["vget", r.choice(self.vars)]
        if not env["pure"] and self.defined and r.random() < 0.08:
            return ["call", r.choice(self.defined)[0]]
        if r.random() < 0.08:
            return ["el", r.choice(CALL_ELS)]
        return self.element(env)

    def sub(self, env, **kw):
        e = dict(env)
        e["depth"] = env["depth"] + 1
        if "loop" in kw or "fn" in kw:
            e["modtail"] = False   # bodies of loops / lambdas / functions get their own parent
            e["nomod"] = False
            e["nobreak"] = False
        e.update(kw)
        return e

    def lam_body(self, env, pure):
        return self.body(self.sub(env, loop=False, fn="lam", top=False, pure=pure or env["pure"], item=False), 1, 4)

    def struct(self, env):
        r = self.r
        kinds = ["if", "for", "while", "lam", "map", "filter", "sort", "list", "mod", "mod", "if", "for"]
        if env["top"] and env["depth"] == 0 and not env["pure"]:
            kinds.append("def")
        k = r.choice(kinds)
        if k == "if":
            nb = r.choice([1, 1, 2, 2, 2, 3, 4, 3, 4, 5, 6])
            return ["if", [self.body(self.sub(env), 0, 3) for _ in range(nb)]]
        if k == "for":
            name = None
            if env["top"] and not env["pure"] and r.random() < 0.25:
                name = r.choice(VAR_NAMES)
            body = self.body(self.sub(env, loop=True), 0, 4)
            if name:
                self.vars.append(name)
            return ["for", name, body]
        if k == "while":
            # keep most while loops terminating: "{:|‹ ...}" style countdowns or explicit break
            style = r.random()
            e = self.sub(env, loop=True)
            if style < 0.15:
                # condition reads the enclosing context: "{:n<|›}" counts up to n
                cond = [["el", ":"], ["el", "n"], ["el", r.choice(["<", ">"])]]
                body = [["el", r.choice(["›", "‹"])]] + self.body(e, 0, 1)
                return ["while", cond, body]
            if style < 0.45:
                cond = [["el", ":"]]
                body = [["el", "‹"]] + self.body(e, 0, 2)
                if r.random() < 0.5:
                    body = self.body(e, 0, 2) + [["el", "‹"]]
                return ["while", cond, body]
            if style < 0.7:
                cond = self.body(self.sub(env, nobreak=True), 1, 2)
                return ["while", cond or [["num", 0]], self.body(e, 0, 3)]
            e["nomod"] = True  # the closing X must not end up after a modifier
            body = self.body(e, 0, 3) + [["brk"]]
            if r.random() < 0.5:
                body = self.body(e, 0, 2) + [["if", [[["brk"]]]]] + self.body(e, 0, 1) + [["brk"]]
            return ["while", None, body]
        if k == "lam":
            ar = r.choice([None, None, 0, 1, 1, 2, 2, 3])
            return ["lam", ar, self.lam_body(env, False)]
        if k in ("map", "filter", "sort"):
            return [k, self.lam_body(env, True)]
        if k == "list":
            ni = r.choice([0, 1, 1, 2, 2, 3])
            if ni == 0:
                return ["list", [[]]]
            return ["list", [self.body(self.sub(env, loop=False, fn=None, top=False, item=True), 0, 3) for _ in range(ni)]]
        if k == "def":
            name = r.choice(FN_NAMES)
            params = r.choice([[], [1], [2], [1, 1], [3], ["p"], [1, "p"], ["p", 2]])
            body = self.body(self.sub(env, loop=False, fn="def", top=False, item=False), 0, 5)
            self.defined.append((name, params))
            return ["def", name, list(params), body]
        if k == "mod":
            if env.get("nomod") and not self.cfg.allow_modtail:
                return ["if", [self.body(self.sub(env), 0, 2)]]
            return self.mod(env)
        raise AssertionError(k)

    def operand(self, env, lazy, prefer=None):
        """One modifier operand: an element, a literal, a lambda or another structure."""
        r = self.r
        x = r.random()
        e = self.sub(env, pure=env["pure"] or lazy)
        if x < 0.55:
            pool = prefer or ["+", "-", "*", "<", ">", "=", "›", "‹", "d", "N", "w", '"', "L", ":"]
            return ["el", r.choice(pool)]
        if x < 0.65:
            return self.num()
        if x < 0.9:
            ar = r.choice([None, 1, 1, 2, 2])
            return ["lam", ar, self.lam_body(e, lazy)]
        if env["depth"] + 1 < self.cfg.max_depth:
            k = r.choice(["if", "list", "for"])
            if k == "if":
                return ["if", [self.body(self.sub(e, fn="lam", loop=False, top=False), 0, 2) for _ in range(r.choice([1, 2]))]]
            if k == "list":
                return ["list", [self.body(self.sub(e, loop=False, fn=None, top=False, item=True), 0, 2) for _ in range(r.choice([1, 2]))]]
            return ["for", None, self.body(self.sub(e, loop=True, fn="lam", top=False), 0, 2)]
        return ["el", "›"]

    def mod(self, env):
        r = self.r
        ch = r.choice(MONADIC_MODS + DYADIC_MODS + TRIADIC_MODS)
        monads = ["›", "‹", "d", "N", "w", "L"]
        dyads = ["+", "-", "*", "<", ">", "=", '"']
        if ch == "v":
            return ["mod", ch, [self.operand(env, True, monads + dyads)]]
        if ch == "&":
            return ["mod", ch, [self.operand(env, False, monads)]]
        if ch == "~":
            return ["mod", ch, [self.operand(env, True, monads + dyads)]]
        if ch == "ß":
            return ["mod", ch, [self.operand(env, False)]]
        if ch == "ƒ":
            return ["mod", ch, [self.operand(env, False, dyads)]]
        if ch == "ɖ":
            return ["mod", ch, [self.operand(env, True, dyads)]]
        if ch == "⁽":
            return ["mod", ch, [self.simple(env)]]
        if ch in ("₌", "₍"):
            return ["mod", ch, [self.operand(env, False), self.operand(env, False)]]
        if ch == "‡":
            return ["mod", ch, [self.simple(env), self.simple(env)]]
        return ["mod", ch, [self.simple(env), self.simple(env), self.simple(env)]]

    def simple(self, env):
        r = self.r
        if r.random() < 0.25:
            return self.num()
        return ["el", r.choice(PURE_ELS)]


def gen_program(rnd, cfg=None):
    g = Gen(rnd, cfg)
    env = {"depth": 0, "pure": False, "loop": False, "fn": None, "top": True, "item": False}
    prog = g.body(env, 1, 7)
    return prog


def count_nodes(body):
    n = 0
    for node in body:
        n += 1
        k = node[0]
        if k == "if" or k == "list":
            n += sum(count_nodes(b) for b in node[1])
        elif k == "for":
            n += count_nodes(node[2])
        elif k == "while":
            n += count_nodes(node[1] or []) + count_nodes(node[2])
        elif k == "lam":
            n += count_nodes(node[2])
        elif k in ("map", "filter", "sort"):
            n += count_nodes(node[1])
        elif k == "def":
            n += count_nodes(node[3])
        elif k == "mod":
            n += count_nodes(node[2])
    return n


def has_structure(body):
    for node in body:
        if node[0] not in ("num", "el", "vset", "vget"):
            return True
    return False
