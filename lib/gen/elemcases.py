"""Shared workload of C09 and C10: every key of the element table (and every
modifier applied to elements) executed *through program text* on
`sentinels + arguments`, with the arguments kept by the harness.

Pure-data argument specs come from lib/gen/values.py (G-val); the sampler here
only decides *which kind* of G-val value goes into which argument position and
learns, per key, which kind tuples complete (many elements accept only some
type combinations; an execution that raises makes no claim for C09/C10).

Nothing here imports vyxal at module level."""
from __future__ import annotations

import os
import random
import sys

from lib.gen import values as gv

PROGRAM_FILENAME = "<vyxal-program>"

# documented whole-stack operations (C09 statement: wrap, reverse stack, stack
# length, rotate, over, call) -- exempt from the prefix oracle by key
WHOLE_STACK_KEYS = {"W", "^", "!", "„", "‟", "Ȯ", "†", "¨ẇ", "Ė"}
WHOLE_STACK_MODIFIERS = {"ß"}
# printing a function value calls it (Structures.md): exempt as a call
PRINT_KEYS = {",", "₴", "…", "¨,", "¨…"}

TABLE_MONADIC = ["v", "&", "~", "ß", "ƒ", "ɖ"]
TABLE_DYADIC = ["₌", "₍"]
LAMBDA_MODS = {"⁽": 1, "‡": 2, "≬": 3}

CATS = ["n", "i", "q", "s", "Li", "Zi", "Ls", "Lm", "Lx", "Zx", "f"]


def rng_for(*parts):
    return random.Random(":".join(str(p) for p in parts))


def gen_cat(r, cat):
    """One G-val spec of the given kind."""
    if cat == "n":
        return r.choice([0, 1, 2, 3, 4, 5])
    if cat == "i":
        return gv.rnd_int(r)
    if cat == "q":
        return gv.rnd_rat(r)
    if cat == "s":
        return r.choice(gv.STRINGS)
    if cat == "Li":
        return [gv.rnd_int(r) for _ in range(r.randint(1, 5))]
    if cat == "Zi":
        return {"lazy": [gv.rnd_int(r) for _ in range(r.randint(1, 5))]}
    if cat == "Ls":
        return [r.choice(gv.STRINGS) for _ in range(r.randint(1, 4))]
    if cat == "Lm":
        n, m = r.randint(2, 3), r.randint(2, 3)
        return [[gv.rnd_int(r) for _ in range(m)] for _ in range(n)]
    if cat == "Lx":
        return gv.rnd_list(r, depth=2, maxlen=5, lazy_p=0.0)
    if cat == "Zx":
        inner = gv.rnd_list(r, depth=2, maxlen=5, lazy_p=0.25)
        if isinstance(inner, dict):
            return inner
        return {"lazy": inner}
    if cat == "f":
        return {"fn": r.choice(gv.FUNCS)}
    raise ValueError(cat)


LISTY = ["Li", "Zi", "Ls", "Lm", "Lx", "Zx"]


class ArgSampler:
    """Chooses a kind tuple for the next execution of one program: explores
    uniformly first, then prefers kind tuples that completed before.
    `require_list`: at least one argument is a list / lazy list (C10 has
    nothing to compare on scalars: they are immutable Python objects)."""

    def __init__(self, r, arity, explore=12, require_list=False):
        self.r = r
        self.arity = arity
        self.explore = explore
        self.tries = 0
        self.good = []
        self.require_list = require_list and arity > 0

    def next(self):
        self.tries += 1
        r = self.r
        if self.arity == 0:
            return (), []
        if self.good and self.tries > self.explore and r.random() < 0.7:
            cats = r.choice(self.good)
        elif self.tries % 5 == 1:
            # one fully random G-val value per position (any depth / laziness)
            specs = [gv.rnd_value(r, funcs=True) for _ in range(self.arity)]
            if self.require_list and not any(spec_is_listy(s) for s in specs):
                specs[r.randrange(self.arity)] = gen_cat(r, r.choice(LISTY))
            return tuple("*" for _ in specs), specs
        else:
            cats = tuple(r.choice(CATS) for _ in range(self.arity))
            if self.require_list and not any(c in LISTY for c in cats):
                cats = list(cats)
                cats[r.randrange(self.arity)] = r.choice(LISTY)
                cats = tuple(cats)
        return cats, [gen_cat(r, c) for c in cats]

    def completed(self, cats):
        if cats and "*" not in cats and cats not in self.good:
            self.good.append(cats)


def has_fn(spec):
    if isinstance(spec, dict):
        if "fn" in spec:
            return True
        if "lazy" in spec:
            return any(has_fn(x) for x in spec["lazy"])
        return False
    if isinstance(spec, list):
        return any(has_fn(x) for x in spec)
    return False


def make_sentinels():
    """Three fresh objects: a unique list, a string, a large int."""
    return [["S", [1, 2], 7], "".join(["sentinel", "-", "string"]), 10 ** 30 + int("7")]


def sentinel_snapshot():
    return [["S", [1, 2], 7], "sentinel-string", 10 ** 30 + 7]


def element_table():
    from vyxal import elements as E

    return E.elements


def modifier_programs(r, key, keys, per_mod=1):
    """Programs applying every modifier to element `key` (other operands of
    dyadic / triadic modifiers are drawn from the table). Returns a list of
    (modifier, program, n_args, operand keys)."""
    table = element_table()

    def ar(k):
        return max(0, int(table[k][1]))

    # n_args = what the modified element is documented to consume from the
    # real stack (so that popping one entry too many reaches a sentinel):
    # v ~ : arity of A; & : arity - 1 (it pushes the register first); ƒ ɖ : 1;
    # ß : condition + arity; ₌ ₍ : B pops the real stack, A reads a copy (run
    # both with arity(B) and with max(arity A, arity B) arguments); ⁽ ‡ ≬ : 0.
    out = []
    a = ar(key)
    need = {"v": a, "~": a, "&": max(a - 1, 0), "ƒ": 1, "ɖ": 1, "ß": a + 1}
    for m in TABLE_MONADIC:
        out.append((m, m + key, need[m], [key]))
    out.append(("⁽", "⁽" + key, 0, [key]))
    for m in TABLE_DYADIC:
        for _ in range(per_mod):
            k2 = r.choice(keys)
            out.append((m, m + key + k2, r.choice([ar(k2), max(a, ar(k2))]), [key, k2]))
            k2 = r.choice(keys)
            out.append((m, m + k2 + key, r.choice([a, max(a, ar(k2))]), [k2, key]))
    k2 = r.choice(keys)
    out.append(("‡", "‡" + key + k2, 0, [key, k2]))
    k2 = r.choice(keys)
    out.append(("‡", "‡" + k2 + key, 0, [k2, key]))
    for pos in range(3):
        ks = [r.choice(keys) for _ in range(3)]
        ks[pos] = key
        out.append(("≬", "≬" + "".join(ks), 0, ks))
    return out


def modifier_shape_ok(mod, program):
    """Generator self-check: the text parses as exactly one modifier
    structure (a mismatch is a generator problem, never a verdict)."""
    from vyxal import lexer, parse

    try:
        tree = parse.parse(lexer.tokenise(program))
    except Exception:  # noqa
        return False
    if len(tree) != 1:
        return False
    name = type(tree[0]).__name__
    if mod in LAMBDA_MODS:
        return name == "Lambda"
    return name in ("MonadicModifier", "DyadicModifier", "TriadicModifier")


class Run:
    __slots__ = ("program", "stack", "ctx", "ns", "error", "completed", "why", "codes")

    def __init__(self):
        self.program = None
        self.stack = None
        self.ctx = None
        self.ns = None
        self.error = None
        self.completed = False
        self.why = None
        self.codes = []


def fresh_ctx(inputs=(11, "in"), global_array=(3, "g")):
    from lib import env

    ctx = env.new_ctx(list(inputs))
    if hasattr(ctx, "global_array"):
        ctx.global_array = list(global_array)
    return ctx


def execute(segments, stack, ctx=None, seconds=3.0, between=None):
    """tokenise -> parse -> transpile -> exec, segment after segment in ONE
    namespace on ONE stack (variables survive from segment to segment;
    `between(i, run)` is called after segment i completed). The whole thing
    runs under the wall-clock watchdog; outcome in Run.why:
    completed | error | exit | watchdog | memory | transpile."""
    from lib import env
    from lib.worker import Watchdog, watchdog
    from vyxal.transpile import transpile

    run = Run()
    run.program = "".join(segments)
    run.stack = stack
    run.ctx = ctx if ctx is not None else fresh_ctx()
    run.ctx.stacks.append(stack)
    random.seed(1234)
    try:
        for seg in segments:
            run.codes.append(compile(transpile(seg), PROGRAM_FILENAME, "exec"))
    except Exception as e:  # noqa
        run.error = e
        run.why = "transpile"
        return run
    run.ns = env.fresh_ns(stack, run.ctx)
    try:
        with watchdog(seconds):
            for i, code in enumerate(run.codes):
                exec(code, run.ns)
                if between is not None:
                    between(i, run)
        run.completed = True
        run.why = "completed"
    except Watchdog:
        run.why = "watchdog"
    except MemoryError as e:
        run.error = e
        run.why = "memory"
    except RecursionError as e:
        run.error = e
        run.why = "recursion"
    except SystemExit as e:
        run.error = e
        run.why = "exit"
    except Exception as e:  # noqa
        run.error = e
        run.why = "error"
    finally:
        try:
            if sys.stdin is None or sys.stdin.closed:  # exit() closes stdin
                sys.stdin = open(os.devnull)
        except Exception:  # noqa
            pass
    got = run.ns.get("stack") if run.ns is not None else None
    if got is not None:
        run.stack = got
    return run


def short_err(e):
    if e is None:
        return None
    return f"{type(e).__name__}: {str(e)[:120]}"


def force(v, width=8, depth=2):
    """Read a bounded part of a result the way a program could (first `width`
    items, nested `depth` levels)."""
    import itertools

    t = type(v)
    if t is list:
        if depth > 0:
            for x in v[:width]:
                force(x, width, depth - 1)
    elif t.__name__ == "LazyList":
        for x in itertools.islice(iter(v), width):
            if depth > 0:
                force(x, width, depth - 1)


def expected_of(spec):
    from lib import values

    return values.spec_plain(spec)


def observe(v, spec):
    """Bounded materialisation of a held value *after* the run, in canonical
    form (at most twice the expected length + 6 items are pulled, so a list
    that became longer or infinite is still reported, never looped on)."""
    from lib import values

    exp = expected_of(spec)
    n = len(exp) if isinstance(exp, list) else 1
    return values.canon(v, limit=2 * n + 6)


def _strip_cut(obs):
    if obs and isinstance(obs[-1], dict) and obs[-1].get("x") == "cut":
        return obs[:-1], True
    return obs, False


def locate_change(spec, exp, obs, path=(), root_lazy=None):
    """Where and how does the observed canonical value differ from the
    expected one: (path, how, lazy) with `lazy` = the list at `path` is a lazy
    list in the spec. how: repeated (reads as itself k >= 2 times) |
    item-replaced | appended | items-lost | changed."""
    lazy = spec_is_lazy(spec)
    if root_lazy is not None and not path:
        lazy = root_lazy  # a duplicate of an eager list is a lazy view
    if not isinstance(exp, list) or not isinstance(obs, list):
        return path, "changed", lazy
    items, cut = _strip_cut(obs)
    n = len(exp)
    if n and len(items) >= 2 * n and items == (exp * (len(items) // n + 1))[: len(items)]:
        return path, "repeated", lazy
    sub = spec["lazy"] if spec_is_lazy(spec) else spec
    if len(items) == n and not cut:
        for i in range(n):
            if items[i] != exp[i]:
                if isinstance(exp[i], list) and isinstance(items[i], list) and isinstance(sub, list) and i < len(sub):
                    return locate_change(sub[i], exp[i], items[i], path + (i,))
                return path + (i,), "item-replaced", lazy
        return path, "changed", lazy
    if len(items) > n and items[:n] == exp:
        return path, "appended", lazy
    if len(items) < n:
        return path, "items-lost", lazy
    return path, "changed", lazy


def spec_is_lazy(spec):
    return isinstance(spec, dict) and "lazy" in spec


def spec_is_listy(spec):
    return isinstance(spec, list) or spec_is_lazy(spec)
