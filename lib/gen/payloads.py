"""Payload / context helpers shared by C03 (literal contents are data) and C18
(generated Python contains program text only as constants).

Pure data and string building: nothing here imports the repository under test,
so the supervisor can enumerate units with it. Independent of lib/gen/full.py.

C03 side
--------
* SYNTAX_CHARS: the syntax-significant characters listed in the property
  statement (the statement says 27; the list it prints has 28 entries, all are
  used).
* LITERAL_KINDS: the seven literal kinds and how a payload is written in the
  literal's own syntax (`write_literal`).
* C03_CONTEXTS: exactly 40 fixed contexts C[.]: every structure kind and branch
  position, every modifier operand slot, four nested three deep, four
  end-truncated (two of which also leave the literal itself unterminated).
* random_context(): random nestings of the same frames for the thorough tier.

C18 side
--------
* C18_ALPHABET (16 symbols, the identifier-like ones are re-chosen at run time
  by the check from letters that are free in the vocabulary), C18_POSITIONS
  (every position that accepts program-chosen text), C18_WRAPPERS, and the
  benign corpus builder.
"""
from __future__ import annotations

import itertools

# --------------------------------------------------------------------------
# C03
# --------------------------------------------------------------------------

SYNTAX_CHARS = list("|;])}⟩Xxv⁽&~ßƒɖ₌‡₍≬[({λƛ'µ⟨@")
assert len(SYNTAX_CHARS) == len(set(SYNTAX_CHARS)) == 28

# kind -> (token kind the lexer must produce (TokenType.value) or None for a comment,
#          fixed payload length or None)
LITERAL_KINDS = {
    "string": ("string", None),            # `...`
    "twochar": ("string", 2),              # ‛xy
    "char": ("character", 1),              # \x
    "cstring": ("compressed_string", None),  # «...«
    "cnumber": ("compressed_number", None),  # »...»
    "cpnumber": ("codepage_number", 1),    # ⁺x
    "comment": (None, None),               # #...\n
}
KIND_ORDER = ["string", "twochar", "char", "cstring", "cnumber", "cpnumber", "comment"]


def payload_ok(kind: str, payload: str) -> bool:
    """Can `payload` be written as the content of a literal of this kind?"""
    _, fixed = LITERAL_KINDS[kind]
    if fixed is not None and len(payload) != fixed:
        return False
    if kind == "cstring" and "«" in payload:
        return False
    if kind == "cnumber" and "»" in payload:
        return False
    if kind == "comment" and "\n" in payload:
        return False
    return True


def write_literal(kind: str, payload: str, closed: bool = True) -> str:
    """The literal of `kind` whose content is `payload`, in the literal's own
    syntax. closed=False leaves out the literal's own terminator (only
    meaningful at the very end of a program)."""
    assert payload_ok(kind, payload), (kind, payload)
    if kind == "string":
        body = payload.replace("\\", "\\\\").replace("`", "\\`")
        return "`" + body + ("`" if closed else "")
    if kind == "twochar":
        return "‛" + payload
    if kind == "char":
        return "\\" + payload
    if kind == "cstring":
        return "«" + payload + ("«" if closed else "")
    if kind == "cnumber":
        return "»" + payload + ("»" if closed else "")
    if kind == "cpnumber":
        return "⁺" + payload
    if kind == "comment":
        return "#" + payload + ("\n" if closed else "")
    raise KeyError(kind)


def reference_payload(kind: str, payload: str, letter: str = "a") -> str:
    """A harmless payload of the same kind (same length, so fixed-width
    literals stay well-formed)."""
    _, fixed = LITERAL_KINDS[kind]
    n = fixed if fixed is not None else len(payload)
    return letter * n


def exhaustive_payloads(kind: str, maxlen: int = 2):
    """All payloads of length <= maxlen over SYNTAX_CHARS that the kind can hold."""
    _, fixed = LITERAL_KINDS[kind]
    lengths = [fixed] if fixed is not None else range(0, maxlen + 1)
    for n in lengths:
        if n > maxlen:
            continue
        for tup in itertools.product(SYNTAX_CHARS, repeat=n):
            yield "".join(tup)


def _ctx(cid, group, pre, post, open_literal=False):
    return {"id": cid, "group": group, "pre": pre, "post": post, "open_literal": open_literal}


C03_CONTEXTS = [
    # --- every structure kind and branch position (16) -------------------
    _ctx("top", "structure", "1 ", " +"),
    _ctx("if-true", "structure", "[", "|2]"),
    _ctx("if-else", "structure", "[1|", "]"),
    _ctx("if-elif-cond", "structure", "[1|", "|2|3]"),
    _ctx("if-elif-body", "structure", "[1|2|", "|3]"),
    _ctx("if-final-else", "structure", "[1|2|3|", "]"),
    _ctx("for-body", "structure", "(", ")"),
    _ctx("for-named-body", "structure", "(n|", ")"),
    _ctx("while-cond", "structure", "{", "|2}"),
    _ctx("while-body", "structure", "{1|", "}"),
    _ctx("lambda-body", "structure", "λ", ";"),
    _ctx("lambda-arity-body", "structure", "λ2|", ";"),
    _ctx("map-lambda-body", "structure", "ƛ", ";"),
    _ctx("list-first", "structure", "⟨", "|2⟩"),
    _ctx("list-middle", "structure", "⟨1|", "|3⟩"),
    _ctx("function-body", "structure", "@f:2|", ";"),
    # --- every modifier operand slot (16) --------------------------------
    _ctx("mod-v", "modifier", "v", "+"),
    _ctx("mod-⁽", "modifier", "⁽", "+"),
    _ctx("mod-&", "modifier", "&", "+"),
    _ctx("mod-~", "modifier", "~", "+"),
    _ctx("mod-ß", "modifier", "ß", "+"),
    _ctx("mod-ƒ", "modifier", "ƒ", "+"),
    _ctx("mod-ɖ", "modifier", "ɖ", "+"),
    _ctx("mod-₌-A", "modifier", "₌", "+1"),
    _ctx("mod-₌-B", "modifier", "₌+", "1"),
    _ctx("mod-‡-A", "modifier", "‡", "+1"),
    _ctx("mod-‡-B", "modifier", "‡+", "1"),
    _ctx("mod-₍-A", "modifier", "₍", "+1"),
    _ctx("mod-₍-B", "modifier", "₍+", "1"),
    _ctx("mod-≬-A", "modifier", "≬", "+-1"),
    _ctx("mod-≬-B", "modifier", "≬+", "-1"),
    _ctx("mod-≬-C", "modifier", "≬+-", "1"),
    # --- nested three deep (4); these also cover filter / sort lambdas,
    #     named parameters and the last list item -------------------------
    _ctx("deep-for-if-while", "nested", "(n|[1|{", "|2}])+"),
    _ctx("deep-lambda-list-filter", "nested", "λ⟨1|'", ";⟩;"),
    _ctx("deep-function-sort-if", "nested", "@f:a:b|µ[", "|2];;+"),
    _ctx("deep-while-mod-list", "nested", "{1|₌+⟨", "|2⟩}"),
    # --- end-truncated (4): trailing closers omitted; the last two also
    #     leave the literal's own terminator out ---------------------------
    _ctx("trunc-if-else", "truncated", "[1|", ""),
    _ctx("trunc-for-lambda", "truncated", "(n|λ", ""),
    _ctx("trunc-list-while", "truncated", "⟨1|{2|", "", open_literal=True),
    _ctx("trunc-function-mod", "truncated", "@f:2|v", "", open_literal=True),
]
# --- a break / recurse element later in the same branch as a modifier whose operand is the
#     literal: its recorded parent is part of the tree (12) ---------------------------------
for _m, _pre, _post in [("v", "v", "+"), ("⁽", "⁽", ""), ("ß", "ß", ""), ("₌-A", "₌", "+"), ("₌-B", "₌+", ""),
                        ("‡-B", "‡+", ""), ("₍-A", "₍", "+"), ("≬-A", "≬", "+-"), ("≬-B", "≬+", "-"),
                        ("≬-C", "≬+-", "")]:
    C03_CONTEXTS.append(_ctx(f"for-mod-{_m}-then-break", "mod-then-break", "(" + _pre, _post + "_n,X)"))
C03_CONTEXTS.append(_ctx("lambda-mod-v-then-recurse", "mod-then-break", "λ&", "_n[x]1;"))
C03_CONTEXTS.append(_ctx("while-mod-‡-A-then-break-recurse", "mod-then-break", "@f|{1|‡", "+:[X|x]};"))
# --- long flat bodies (120 / 200 tokens around the literal): size must not matter (12) -----
_L = "1_" * 60
for _id, _pre, _post in [("for", "(", ")"), ("if-else", "[1|", "]"), ("if-true", "[", "|2]"), ("while-body", "{1|", "}"),
                         ("while-cond", "{", "|1}"), ("lambda", "λ", ";"), ("map", "ƛ", ";"), ("sort", "µ", ";"),
                         ("list", "⟨", "⟩"), ("function", "@f:2|", ";"), ("for>lambda", "(λ", ";)")]:
    C03_CONTEXTS.append(_ctx(f"long-{_id}", "long", "2" + _pre + _L, "_" + _L + "n," + _post))
C03_CONTEXTS.append(_ctx("long-trunc-for", "long", "2(" + _L, "_" + _L + _L))
assert len(C03_CONTEXTS) == 64 and len({c["id"] for c in C03_CONTEXTS}) == 64
C03_BY_ID = {c["id"]: c for c in C03_CONTEXTS}


def build_program(ctx: dict, kind: str, payload: str) -> str:
    return ctx["pre"] + write_literal(kind, payload, closed=not ctx["open_literal"]) + ctx["post"]


# frames for random nesting: (opening text, closing text). The hole is a code
# position in every frame; `post` texts start with a character that cannot be
# captured by a preceding literal or digraph head.
_FRAMES = [
    ("[", "|2]"), ("[1|", "]"), ("[1|", "|2|3]"), ("[1|2|", "|3]"), ("[1|2|3|", "]"),
    ("(", ")"), ("(n|", ")"), ("{", "|2}"), ("{1|", "}"), ("{", "}"),
    ("λ", ";"), ("λ2|", ";"), ("ƛ", ";"), ("'", ";"), ("µ", ";"),
    ("⟨", "|2⟩"), ("⟨1|", "|3⟩"), ("⟨1|", "⟩"), ("@f:2|", ";"), ("@f:a:b|", ";"), ("@f|", ";"),
    # modifier frames carry one operand more than needed, so that a hole that
    # yields no token (a comment) still leaves a well-formed program
    ("v", "+"), ("⁽", "+"), ("&", "+"), ("~", "+"), ("ß", "+"), ("ƒ", "+"), ("ɖ", "+"),
    ("₌", "+-"), ("₌+", "-"), ("‡", "+-"), ("‡+", "-"), ("₍", "+-"), ("₍+", "-"),
    ("≬", "+-N"), ("≬+", "-N"), ("≬+-", "N"),
]
_FILLER = ["", "1", "+", "1 ", "d", ":", "_", "n", "→a", "←a ", "`s`", "\\c", "2 3", "N", "X", "x", "_X", "[X]", "nx"]


def random_context(r, maxdepth=4):
    """A random nesting of frames with harmless fillers; returns a context dict."""
    depth = r.randint(1, maxdepth)
    pre, post = "", ""
    for _ in range(depth):
        o, c = r.choice(_FRAMES)
        f1 = r.choice(_FILLER)
        f2 = r.choice(_FILLER)
        # fillers that end in a name / number need a separator before what follows
        if f1 and (f1[-1].isalnum() or f1[-1] == "_"):
            f1 += " "
        # now and then a long flat run of tokens on either side
        if r.random() < 0.08:
            f1 = "1_" * r.choice([30, 50, 70]) + f1
        if r.random() < 0.08:
            f2 = "1_" * r.choice([30, 50, 70]) + f2
        pre = pre + f1 + o
        post = c + (" " + f2 if f2 else "") + post
    trunc = r.random() < 0.2
    open_lit = False
    if trunc:
        # end-truncation: only the trailing run of closers may be left out
        post = post.rstrip("])};⟩ ")
        open_lit = post == "" and r.random() < 0.5
    return {"id": "random", "group": "random", "pre": pre, "post": post, "open_literal": open_lit}


def random_payload(r, kind: str, codepage: str):
    """Random payload (length <= 6) mixing syntax characters, the literal
    delimiters / escapes and arbitrary code-page characters."""
    _, fixed = LITERAL_KINDS[kind]
    n = fixed if fixed is not None else r.choice([0, 1, 1, 2, 2, 3, 3, 4, 5, 6])
    pool = SYNTAX_CHARS * 3 + list("`\\«»#‛⁺→←k∆øÞ¨ 0a.") + [r.choice(codepage) for _ in range(6)]
    for _ in range(50):
        p = "".join(r.choice(pool) for _ in range(n))
        if payload_ok(kind, p):
            return p
    return "a" * n


# --------------------------------------------------------------------------
# C18
# --------------------------------------------------------------------------

# The design's adversarial alphabet. The four identifier-like symbols (lower
# letter, upper letter, digit, underscore) are *slots*: the check substitutes
# letters that occur in no vocabulary identifier where such a letter exists.
C18_FIXED = ['"', "'", "\\", "\n", "[", "]", "(", ")", "^", "`", ":", ";"]
C18_SLOTS = ["q", "Q", "9", "_"]
C18_ALPHABET = C18_FIXED + C18_SLOTS
assert len(C18_ALPHABET) == 16
# second alphabet, used at the positions whose text becomes an identifier
C18_EXT_FIXED = [".", ",", "=", " ", "-", "*", "#", "@", "é", "ａ", "[", "]"]
assert len(C18_EXT_FIXED + C18_SLOTS) == 16


def _esc_bq(p):
    return p.replace("\\", "\\\\").replace("`", "\\`")


# name -> function(payload) -> program text. "raw" positions paste the payload
# unescaped (it may end the literal early: whatever text is given...).
C18_POSITIONS = {
    "string-raw": lambda p: "`" + p + "`",
    "string-escaped": lambda p: "`" + _esc_bq(p) + "`",
    "string-open": lambda p: "`" + _esc_bq(p),
    "twochar": lambda p: "‛" + p,
    "char": lambda p: "\\" + p,
    "var-set": lambda p: "→" + p,
    "var-get": lambda p: "←" + p,
    "loop-var": lambda p: "(" + p + "|1)",
    "function-call": lambda p: "@" + p + ";",
    "function-name": lambda p: "@" + p + ":1|1;",
    "function-name-noparam": lambda p: "@" + p + "|1;",
    "param-only": lambda p: "@f:" + p + "|1;",
    "param-first": lambda p: "@f:" + p + ":a|1;",
    "param-second": lambda p: "@f:a:" + p + "|1;",
    "param-after-number": lambda p: "@f:2:" + p + "|1;",
    "param-after-star": lambda p: "@f:*:" + p + "|1;",
    "lambda-arity": lambda p: "λ" + p + "|1;",
    "cstring": lambda p: "«" + p + "«",
    "cnumber": lambda p: "»" + p + "»",
    "cpnumber": lambda p: "⁺" + p,
    "comment": lambda p: "#" + p + "\n1",
    "number-suffix": lambda p: "1" + p,
}
C18_POSITION_ORDER = list(C18_POSITIONS)

# positions whose program-chosen text becomes (part of) an identifier
C18_NAME_POSITIONS = [
    "var-set", "var-get", "loop-var", "function-call", "function-name", "function-name-noparam",
    "param-only", "param-first", "param-second", "param-after-number", "param-after-star",
]

C18_WRAPPERS = {
    "top": ("", ""),
    "lambda": ("λ", ";"),
    "for-if": ("(n|[1|", "])"),
    "list-mod": ("⟨1|v", "⟩"),
}


def c18_program(position: str, wrapper: str, payload: str) -> str:
    pre, post = C18_WRAPPERS[wrapper]
    return pre + C18_POSITIONS[position](payload) + post


def all_strings(alphabet, n):
    for tup in itertools.product(alphabet, repeat=n):
        yield "".join(tup)


def nth_string(alphabet, n, index):
    """index-th string of length n over alphabet (same order as all_strings)."""
    k = len(alphabet)
    out = []
    for _ in range(n):
        index, d = divmod(index, k)
        out.append(alphabet[d])
    return "".join(reversed(out))


# --- benign corpus ---------------------------------------------------------

BENIGN_NAMES = ["a", "x", "abc", "Foo", "a_b", "_p", "_", "__q", "A1"]  # A1: lexer stops at the digit


def benign_structures():
    """Every structure form, parameter kind, literal kind and break/recurse
    parent, written with harmless names. Element and modifier keys are added
    by the check from the live tables."""
    b = ["1", "+"]
    progs = [
        "", " ", "1", "12", "0", "1.5", ".", "1.", ".5", "°", "1°", "°2", "1°2", "1.5°.5", "3°.",
        "`abc`", "``", "`a b`", "`a\\`b`", "`a\\\\b`", "`a\"b`", "`a'b`", "`a\nb`", "`λƛ`", "`abc",
        "‛ab", "‛a", "‛", "\\a", "\\\\", "\\'", "\\\"", "\\\n", "\\",
        "«abc«", "««", "«abc", "»abc»", "»»", "»1", "⁺a", "⁺1", "⁺", "⁺λ",
        "#comment\n1", "#comment", "1#c\n2",
        "→", "←", "→ 1", "← 1",
        "|", "]", ")", "}", ";", "⟩", "X", "x", "[X]", "[x]", "[1|X]", "[1|x]",
        "(X)", "(x)", "(n|X)", "(n|x)", "{X}", "{x}", "{1|X}", "{1|x}", "{X|1}", "{x|1}",
        "λX;", "λx;", "λ2|X;", "λ2|x;", "ƛX;", "ƛx;", "'X;", "'x;", "µX;", "µx;",
        "⟨X⟩", "⟨x⟩", "⟨1|X⟩", "⟨1|x⟩", "@f|X;", "@f|x;", "@f:1|X;", "@f:1|x;", "@f:a|X;", "@f:a|x;",
        "vX", "vx", "₌Xx", "₌xX", "≬Xxx", "⁽X", "⁽x", "‡Xx", "≬xXx",
        "[[X]]", "([X])", "([x])", "(⟨X⟩)", "{[X]}", "λ[X];", "λ[x];", "λ(X);", "λ(x);", "@f|[X];", "@f|(x);",
        "λ⟨x⟩;", "v[x]", "v(x)", "vλx;", "v⟨x⟩",
        "[1]", "[1|2]", "[1|2|3]", "[1|2|3|4]", "[1|2|3|4|5]", "[1|2|3|4|5|6]", "[]", "[|]", "[||]", "[|||]", "[",
        "(1)", "()", "(", "(|)", "(|1)", "(1|2)", "(n|1)", "(n|)", "(abc|1)", "(a|b|1)", "(_a|1)", "(_|1)", "(a1|1)",
        "{1}", "{}", "{", "{1|2}", "{|}", "{|1}", "{1|}", "{1|2|3}",
        "λ1;", "λ;", "λ", "λ1", "λ0|1;", "λ2|1;", "λ12|1;", "λ2|;", "λ2|1|2;", "λ2 3|1;",
        "ƛ1;", "ƛ;", "ƛ", "'1;", "';", "'", "µ1;", "µ;", "µ", "ƛ1|2;", "'1|2;", "µ1|2;",
        "⟨⟩", "⟨1⟩", "⟨1|2⟩", "⟨1|2|3⟩", "⟨|⟩", "⟨", "⟨1|", "⟨⟨1⟩|⟨2|3⟩⟩",
        "@f;", "@abc;", "@_f;", "@f1;", "@;", "@", "@f",
        "@f|1;", "@f:1|1;", "@f:2|1;", "@f:*|1;", "@f:a|1;", "@f:a:b|1;", "@f:1:a|1;", "@f:a:1|1;", "@f:*:a|1;",
        "@f:a:*|1;", "@f:1:*:a:_b:2|1;", "@f:|1;", "@f::|1;", "@:1|1;", "@:|1;", "@|1;", "@f:a|;", "@f:a|",
        "@f:ab_c|1;", "@f:_a|1;", "@f:_|1;", "@f:12|1;", "@f:0|1;", "@f:a1|1;", "@f:a b|1;",
        "@f|1|2;", "@f:1|1|2;", "@abc:1|@abc;;", "@f:1|λx;;", "@f|ƛX;;",
    ]
    for n in BENIGN_NAMES:
        progs += ["→" + n, "←" + n, "(" + n + "|1)", "@" + n + ";", "@" + n + ":1|1;", "@f:" + n + "|1;", "@f:1:" + n + "|1;"]
    # literals / names / structures as modifier operands
    operands = ["+", "1", "`a`", "\\a", "‛ab", "«a«", "»a»", "⁺a", "→a", "←a", "λ1;", "λ2|1;", "ƛ1;", "[1]", "(1)", "{1}",
                "⟨1⟩", "@f;", "@f|1;", "x", "X", "N", "_", "Ṡ", "kA", "v+", "₌++"]
    for m in "v⁽&~ßƒɖ":
        progs += [m + o for o in operands] + [m]
    for m in "₌‡₍":
        progs += [m + o + "+" for o in operands] + [m + "+" + o for o in operands] + [m, m + "+"]
    for m in "≬":
        progs += [m + o + "+-" for o in operands] + [m + "+" + o + "-" for o in operands] + [m + "+-" + o for o in operands]
        progs += [m, m + "+", m + "+-"]
    # every statement form nested in every block-opening form (indentation paths)
    inner = ["1", "`a`", "→a", "←a", "[1|2]", "(n|1)", "{1|2}", "λ1;", "ƛ1;", "⟨1|2⟩", "@f:a|1;", "@f;", "v+", "₌+-", "X", "x", "+"]
    outer = [("[", "]"), ("[1|", "]"), ("[1|2|", "]"), ("(", ")"), ("{", "}"), ("{", "|1}"), ("λ", ";"), ("ƛ", ";"), ("'", ";"), ("µ", ";"),
             ("⟨", "⟩"), ("@f|", ";"), ("@f:a|", ";"), ("v", ""), ("₌+", "")]
    for o, c in outer:
        for i in inner:
            progs.append(o + i + c)
    return progs
