"""Worker process: imports the repository under test from VERIF_REPO, then runs
work units received as JSON lines on a private pipe (stdin is /dev/null on
purpose: a Vyxal program that reads input with none supplied calls input(),
which must see EOF, and must never eat protocol lines)."""
from __future__ import annotations

import importlib
import json
import os
import resource
import signal
import sys
import traceback

VERIF = os.path.dirname(os.path.dirname(os.path.abspath(__file__)))
sys.path.insert(0, VERIF)


class Watchdog(BaseException):
    """Raised by SIGALRM; a BaseException so `except Exception` in the code
    under test cannot swallow it."""


def _alarm(signum, frame):
    raise Watchdog()


class watchdog:
    """with watchdog(seconds): ...  -> raises Watchdog on expiry.
    A firing watchdog is *inconclusive*, never a violation."""

    def __init__(self, seconds):
        self.seconds = seconds

    def __enter__(self):
        signal.signal(signal.SIGALRM, _alarm)
        # repeating: an alarm that lands inside a destructor / generator cleanup is
        # "ignored" by the interpreter, so keep firing every second until cancelled
        signal.setitimer(signal.ITIMER_REAL, self.seconds, 1.0)
        return self

    def __exit__(self, *exc):
        signal.setitimer(signal.ITIMER_REAL, 0)
        return False


def main():
    prop, fd_in, fd_out = sys.argv[1], int(sys.argv[2]), int(sys.argv[3])
    gib = float(os.environ.get("VERIF_WORKER_GIB", "4"))
    try:
        resource.setrlimit(resource.RLIMIT_AS, (int(gib * (1 << 30)),) * 2)
    except Exception:  # noqa
        pass
    try:  # die with the supervisor (workers run in their own session)
        import ctypes

        ctypes.CDLL("libc.so.6", use_errno=True).prctl(1, signal.SIGKILL)
        if os.getppid() == 1:
            os._exit(0)
    except Exception:  # noqa
        pass
    sys.setrecursionlimit(3000)
    rin = os.fdopen(fd_in, "r", encoding="utf-8")
    wout = os.fdopen(fd_out, "w", encoding="utf-8")
    from lib import env

    fatal = None
    mod = None
    try:
        env.bind()
        mod = importlib.import_module(f"lib.props.{prop.lower()}")
        if hasattr(mod, "setup_worker"):
            mod.setup_worker()
    except BaseException:  # noqa
        fatal = traceback.format_exc()
    for line in rin:
        line = line.strip()
        if not line:
            continue
        unit = json.loads(line)
        if fatal:
            res = {"fatal": fatal}
        else:
            try:
                res = mod.run_unit(unit)
            except MemoryError:
                res = {"inconclusive": [{"why": "MemoryError in unit", "unit": unit}]}
            except Watchdog:
                res = {"inconclusive": [{"why": "watchdog in unit", "unit": unit}]}
            except BaseException:  # noqa
                res = {"fatal": traceback.format_exc()}
        try:
            rss_kib = resource.getrusage(resource.RUSAGE_SELF).ru_maxrss
            if isinstance(res, dict) and rss_kib > float(os.environ.get("VERIF_RECYCLE_GIB", "1.5")) * (1 << 20):
                res["_recycle"] = True
        except Exception:  # noqa
            pass
        try:
            s = json.dumps(res, ensure_ascii=True, default=str)
        except Exception:  # noqa
            s = json.dumps({"fatal": "unserialisable result: " + traceback.format_exc()})
        wout.write(s + "\n")
        wout.flush()


if __name__ == "__main__":
    main()
