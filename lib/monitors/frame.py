"""M-FRAME: observe chosen Python functions of the code under test without
wrapping them.

`sys.monitoring` PY_START / PY_RETURN are set *locally* on the code objects of
the watched functions; PY_UNWIND cannot be local in CPython 3.12, so it is set
globally and filtered by code object. Nothing about the function objects is
changed (name, signature, `inspect.getfullargspec`), so `helpers.takes_ctx` /
`safe_apply` dispatch exactly as without the monitor -- a decorator would not
have that property (DESIGN §0.1).

Two ready-made handlers:

* `ArgGuard`  -- argument immutability ride-along (C10): eager list arguments
  are snapshotted structurally at PY_START and compared at PY_RETURN; for
  `LazyList` arguments only the append-only rule on the cache is checked
  (nothing is ever forced).
* `PopGuard`  -- records requests of the popping helper on one designated
  list (the main stack) that reach below a protected prefix (C09).

Callbacks never raise into the monitored code (`Exception`s are counted in
`counters["callback_errors"]`; `BaseException`s such as the watchdog pass).
"""
from __future__ import annotations

import sys

PROGRAM_FILENAME = "<vyxal-program>"

_tool = None
_handlers: dict = {}      # code object -> handler
_active: list = []        # activations of watched functions: (code, handler, token)
counters = {"start": 0, "return": 0, "unwind": 0, "callback_errors": 0}
last_error = None

_GEN_FLAGS = 0x20 | 0x80 | 0x200  # generator, coroutine, async generator


def available() -> bool:
    return hasattr(sys, "monitoring")


def _note_error():
    global last_error
    import traceback

    counters["callback_errors"] += 1
    last_error = traceback.format_exc()[-800:]


def _on_start(code, offset):
    h = _handlers.get(code)
    if h is None:
        return None
    counters["start"] += 1
    token = None
    try:
        token = h.start(code, sys._getframe(1))
    except Exception:  # noqa
        _note_error()
    _active.append((code, h, token))
    return None


def _pop_activation(code):
    # the matching activation is the innermost one with this code object;
    # anything above it was left without an event (cannot normally happen)
    for i in range(len(_active) - 1, -1, -1):
        if _active[i][0] is code:
            entry = _active[i]
            del _active[i:]
            return entry
    return None


def _on_return(code, offset, retval):
    if code not in _handlers:
        return None
    counters["return"] += 1
    entry = _pop_activation(code)
    if entry is not None and entry[2] is not None:
        try:
            entry[1].ret(entry[2], retval)
        except Exception:  # noqa
            _note_error()
    return None


def _on_unwind(code, offset, exc):
    if code not in _handlers:
        return None
    counters["unwind"] += 1
    entry = _pop_activation(code)
    if entry is not None and entry[2] is not None:
        try:
            entry[1].unwind(entry[2], exc)
        except Exception:  # noqa
            _note_error()
    return None


def _ensure_tool():
    global _tool
    if _tool is not None:
        return _tool
    mon = sys.monitoring
    for tid in (mon.PROFILER_ID, mon.OPTIMIZER_ID, 3, 4, mon.DEBUGGER_ID):
        if mon.get_tool(tid) is None:
            mon.use_tool_id(tid, "verif-frame")
            _tool = tid
            break
    if _tool is None:
        raise RuntimeError("no free sys.monitoring tool id")
    ev = mon.events
    mon.register_callback(_tool, ev.PY_START, _on_start)
    mon.register_callback(_tool, ev.PY_RETURN, _on_return)
    mon.register_callback(_tool, ev.PY_UNWIND, _on_unwind)
    mon.set_events(_tool, ev.PY_UNWIND)
    return _tool


def watch(functions, handler) -> dict:
    """Attach `handler` to the code objects of `functions` (plain functions;
    generator functions are skipped: their frames interleave). Returns
    {"watched": n, "skipped_generators": n}."""
    mon = sys.monitoring
    tool = _ensure_tool()
    ev = mon.events
    n = skipped = 0
    for fn in functions:
        code = getattr(fn, "__code__", fn)
        if not hasattr(code, "co_flags"):
            continue
        if code.co_flags & _GEN_FLAGS:
            skipped += 1
            continue
        if code in _handlers:
            continue
        _handlers[code] = handler
        mon.set_local_events(tool, code, ev.PY_START | ev.PY_RETURN)
        n += 1
    return {"watched": n, "skipped_generators": skipped}


def reset():
    """Forget activations (call before every case: a watchdog can cut a case
    in the middle of a callback)."""
    del _active[:]


# --------------------------------------------------------------------------
# structural snapshots that never force a lazy list


MAXW = 400
MAXD = 8


def _is_lazy(v):
    return type(v).__name__ == "LazyList" and hasattr(v, "generated")


def snap(v, depth=0):
    t = type(v)
    if t is list:
        if depth >= MAXD:
            return ("?",)
        return ("L", len(v), [snap(x, depth + 1) for x in v[:MAXW]])
    if _is_lazy(v):
        g = v.generated
        if depth >= MAXD or type(g) is not list:
            return ("?",)
        return ("Z", v, len(g), [snap(x, depth + 1) for x in g[:MAXW]])
    return ("s", v)


def same(sn, v):
    """Does the live value `v` still denote what snapshot `sn` recorded?
    list: same length, items the same; lazy list: the old cache is a prefix of
    the new cache (append-only); scalar: identical or equal."""
    k = sn[0]
    if k == "?":
        return True
    if k == "s":
        o = sn[1]
        if o is v:
            return True
        if type(v) is list or _is_lazy(v):
            return False
        try:
            if type(o) is type(v):
                return bool(o == v)
            from lib import values

            # 1 and sympy.Integer(1) denote the same value
            return values.canon(o, 10) == values.canon(v, 10)
        except Exception:  # noqa
            return True
    if k == "L":
        if type(v) is not list or len(v) != sn[1]:
            return False
        return all(same(s, x) for s, x in zip(sn[2], v))
    if k == "Z":
        if v is not sn[1]:
            # the slot now holds another object: whether it denotes the same
            # sequence cannot be decided without forcing it -- no claim
            return True
        g = v.generated
        if type(g) is not list or len(g) < sn[2]:
            return False
        return all(same(s, x) for s, x in zip(sn[3], g))
    return True


def render(v, depth=0):
    """JSON-able picture of a value that forces nothing."""
    from lib import values

    if type(v) is list:
        if depth >= 5:
            return "…"
        return [render(x, depth + 1) for x in v[:40]]
    if _is_lazy(v):
        if depth >= 5:
            return "…"
        return {"lazy_cache": [render(x, depth + 1) for x in v.generated[:40]]}
    return values.canon(v, 40)


def render_snap(sn, depth=0):
    from lib import values

    k = sn[0]
    if k == "s":
        return values.canon(sn[1], 40)
    if k == "L":
        return [render_snap(s, depth + 1) for s in sn[2][:40]]
    if k == "Z":
        return {"lazy_cache": [render_snap(s, depth + 1) for s in sn[3][:40]]}
    return "…"


def _reachable_lists(v, out, depth=0):
    if depth > MAXD:
        return
    if type(v) is list:
        out.append(id(v))
        for x in v[:MAXW]:
            if type(x) is list or _is_lazy(x):
                _reachable_lists(x, out, depth + 1)
    elif _is_lazy(v):
        out.append(id(v))
        for x in v.generated[:MAXW]:
            if type(x) is list or _is_lazy(x):
                _reachable_lists(x, out, depth + 1)


class ArgGuard:
    """Argument immutability of watched functions.

    A call made directly from program code (the exec'd transpiled program or a
    lambda defined in it: caller's co_filename is PROGRAM_FILENAME) receives
    values that came off a Vyxal stack, i.e. values the program can still hold
    elsewhere (a duplicate is a lazy view of the same list; `←x` pushes the very
    object the variable holds). Every list / lazy list argument of such a call
    is guarded. In calls made from inside the implementation only objects that
    are reachable from the arguments of an enclosing guarded call are guarded
    (a helper may do what it likes with a list it has just built itself).

    Exempt: an argument that *is* one of the interpreter's own stacks."""

    def __init__(self):
        self.events = []
        self.main_stack = None
        self.calls = 0            # guarded activations
        self.args_guarded = 0     # list / lazy arguments snapshotted
        self.lazy_guarded = 0
        self.exempt_stack_args = 0
        self.compared = 0
        self._visible = {}        # id -> refcount

    def begin_case(self, main_stack=None):
        self.events = []
        self.main_stack = main_stack
        self._visible = {}

    def start(self, code, frame):
        back = frame.f_back
        top = back is not None and back.f_code.co_filename == PROGRAM_FILENAME
        if not top and not self._visible:
            return None
        nargs = code.co_argcount + code.co_kwonlyargcount
        locs = frame.f_locals
        ctx = locs.get("ctx")
        stacks = getattr(ctx, "stacks", None)
        if type(stacks) is not list:
            stacks = ()
        guarded = []
        added = []
        for name in code.co_varnames[:nargs]:
            v = locs.get(name)
            lazy = False
            if type(v) is not list:
                if not _is_lazy(v):
                    continue
                lazy = True
            if not lazy and (v is self.main_stack or any(v is s for s in stacks)):
                self.exempt_stack_args += 1
                continue
            if not lazy and top:
                # the calling program scope's own `stack` (a list item's private stack copy is not
                # registered with the context, but it is a stack all the same, not a value)
                try:
                    if back.f_locals.get("stack") is v:
                        self.exempt_stack_args += 1
                        continue
                except Exception:  # noqa
                    pass
            if not top and id(v) not in self._visible:
                continue
            guarded.append((name, v, snap(v)))
            self.args_guarded += 1
            if lazy:
                self.lazy_guarded += 1
            if top:
                _reachable_lists(v, added)
        if not guarded:
            return None
        self.calls += 1
        for i in added:
            self._visible[i] = self._visible.get(i, 0) + 1
        return (code.co_name, guarded, added, top)

    def _release(self, token):
        for i in token[2]:
            n = self._visible.get(i, 0) - 1
            if n <= 0:
                self._visible.pop(i, None)
            else:
                self._visible[i] = n

    def ret(self, token, retval):
        self._release(token)
        fn, guarded, _added, top = token
        for name, v, sn in guarded:
            self.compared += 1
            if not same(sn, v):
                if len(self.events) < 20:
                    self.events.append({
                        "function": fn,
                        "argument": name,
                        "kind": "lazy" if _is_lazy(v) else "eager",
                        "direct_call": bool(top),
                        "before": render_snap(sn),
                        "after": render(v),
                    })

    def unwind(self, token, exc):
        # a call that raises makes no claim
        self._release(token)


class PopGuard:
    """Requests of the popping helper on the main stack that reach below a
    protected prefix of `line` entries."""

    def __init__(self):
        self.main_stack = None
        self.line = 0
        self.events = []
        self.calls_on_main = 0
        self.calls = 0

    def begin_case(self, main_stack, line):
        self.main_stack = main_stack
        self.line = line
        self.events = []

    def start(self, code, frame):
        self.calls += 1
        names = code.co_varnames
        locs = frame.f_locals
        obj = locs.get(names[0])
        if obj is not self.main_stack or obj is None:
            return None
        self.calls_on_main += 1
        count = locs.get(names[1])
        try:
            avail = len(obj) - self.line
            if count > avail and len(self.events) < 10:
                back = frame.f_back
                self.events.append({
                    "count": int(count),
                    "stack_len": len(obj),
                    "protected": self.line,
                    "caller": back.f_code.co_name if back is not None else None,
                })
        except TypeError:
            pass
        return None

    def ret(self, token, retval):
        pass

    def unwind(self, token, exc):
        pass
