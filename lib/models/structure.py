"""Reference semantics of Vyxal structures (M-MODEL), written from
documents/specs/Structures.md, Transpilation.md, Input.md, the flag help text
and the elements.yaml descriptions. It interprets the *generator's* AST
(lib/gen/struct.py) and never calls repository code.

Soundness valve: whenever the documents do not determine the behaviour the model
raises Skip(reason); the case is then discarded *before* the implementation runs.
"""
from __future__ import annotations

MAX_INT = 10 ** 9
MAX_LEN = 300
MAX_DEPTH = 8


class Skip(Exception):
    def __init__(self, reason):
        super().__init__(reason)
        self.reason = reason


class _Break(Exception):
    pass


class _Continue(Exception):
    pass


class _Return(Exception):
    def __init__(self, value):
        self.value = value


class Fn:
    """A lambda value."""

    __slots__ = ("arity", "body", "params", "kind")

    def __init__(self, arity, body, params, kind="lam"):
        self.arity = arity
        self.body = body
        self.params = params  # named parameters visible lexically (closure)
        self.kind = kind      # "lam": a written lambda; "operand": a structure used as modifier operand


def is_int(v):
    return isinstance(v, int) and not isinstance(v, bool)


def check_size(v, depth=0):
    if is_int(v):
        if abs(v) > MAX_INT:
            raise Skip("size:int")
        return
    if isinstance(v, list):
        if len(v) > MAX_LEN:
            raise Skip("size:len")
        if depth > MAX_DEPTH:
            raise Skip("size:depth")
        for x in v:
            check_size(x, depth + 1)


def has_fn(v):
    if isinstance(v, Fn):
        return True
    if isinstance(v, list):
        return any(has_fn(x) for x in v)
    return False


def fmt(v):
    """Documented output format: ints in decimal, lists as ⟨ a | b ⟩."""
    if is_int(v):
        return str(v)
    if isinstance(v, list):
        return "⟨ " + " | ".join(fmt(x) for x in v) + " ⟩"
    raise Skip("print:function")


def copy_value(v):
    if isinstance(v, list):
        return [copy_value(x) for x in v]
    return v


class Frame:
    __slots__ = ("stack", "params", "fn", "is_main")

    def __init__(self, stack, params=None, fn=None, is_main=False):
        self.stack = stack
        self.params = params or {}
        self.fn = fn
        self.is_main = is_main


class Model:
    def __init__(self, inputs=(), flags="", fuel=4000, if_binds_n=False, quirk_modtail=False):
        # quirk_modtail reproduces a *known finding* (not the documented
        # semantics): X / x written after a modifier in the same body are
        # lowered with the modifier as their parent, so X does nothing.
        self.quirk_modtail = quirk_modtail
        self.inputs = [[list(inputs), 0]]
        self.context = [0]
        self.register = 0
        self.global_array = []
        self.vars = {}
        self.funcs = {}
        self.out = []
        self.printed = False
        self.fuel = fuel
        self.flags = flags
        self.range_start = 1
        self.range_end = 1
        if "M" in flags:
            self.range_start = 0
        elif "m" in flags:
            self.range_end = 0
        self.if_binds_n = if_binds_n
        self.n_in_if_used = False     # did an `n` execute while an if-binding was the innermost context?
        self.reads = []               # input read events: (kind, scope_depth, value)
        self.top_trace = []           # main stack after each top-level statement
        self.depth_probe = []

    # ---- primitives -----------------------------------------------------
    def tick(self, k=1):
        self.fuel -= k
        if self.fuel < 0:
            raise Skip("fuel")

    def read_input(self, explicit):
        if explicit:
            scope = self.inputs[0]
            depth = 0
        else:
            scope = self.inputs[-1]
            depth = len(self.inputs) - 1
        if scope[0]:
            v = scope[0][scope[1] % len(scope[0])]
            scope[1] += 1
            v = copy_value(v) if not isinstance(v, Fn) else v
        else:
            v = 0
        self.reads.append(("explicit" if explicit else "implicit", depth, v if not isinstance(v, Fn) else "fn"))
        return v

    def pop(self, fr):
        if fr.stack:
            return fr.stack.pop()
        return self.read_input(False)

    def popn(self, fr, n):
        return [self.pop(fr) for _ in range(n)]

    def push(self, fr, v):
        check_size(v)
        fr.stack.append(v)
        if len(fr.stack) > MAX_LEN:
            raise Skip("size:stack")

    def truthy(self, v):
        if is_int(v):
            return v != 0
        if isinstance(v, list):
            return len(v) > 0
        raise Skip("truthiness:function")

    def iter_of(self, v):
        """Numbers become the documented implicit range (flags M / m)."""
        if is_int(v):
            return list(range(self.range_start, v + self.range_end))
        if isinstance(v, list):
            return list(v)
        raise Skip("iterate:function")

    def emit(self, s):
        self.out.append(s)
        self.printed = True

    # ---- calling --------------------------------------------------------
    def call_fn(self, f, args):
        """Call lambda `f` with explicit arguments (callee stack = args in order)."""
        self.tick(3)
        stack = [a for a in args]
        fr = Frame(stack, params=f.params, fn=f)
        ctxv = copy_value(stack[0]) if len(stack) == 1 else [copy_value(x) for x in stack]
        self.context.append(ctxv)
        self.inputs.append([[copy_value(x) for x in stack][::-1], 0])
        if len(self.inputs) > 40:
            raise Skip("recursion-depth")
        try:
            try:
                self.run_body(f.body, fr, f.kind)
                res = self.pop(fr)
            except _Return as r:
                res = r.value
        finally:
            self.context.pop()
            self.inputs.pop()
        return res

    def lazy(self, f):
        # eager_ok: the caller guarantees that nothing observable happens between building the lazy value and
        # forcing it (it is the last thing in the program), so evaluating it at once is the same history
        if impure(f.body) and not getattr(self, "eager_ok", False):
            raise Skip("lazy-evaluation-of-impure-body")
        return f

    def call_from_stack(self, f, fr, arity=None):
        """† protocol: arguments are popped from the caller's stack."""
        k = f.arity if arity is None else arity
        args = self.popn(fr, k)
        return self.call_fn(f, args)

    def as_fn(self, node, fr):
        """Modifier operand -> function (arity per documentation)."""
        k = node[0]
        if k == "lam":
            return Fn(1 if node[1] is None else node[1], node[2], fr.params)
        if k == "el":
            from lib.gen.struct import ARITY

            return Fn(ARITY[node[1]], [node], fr.params)
        if k in ("num", "vget"):
            return Fn(0, [node], fr.params)
        if k in ("brk", "rec"):
            raise Skip("modifier-operand:break")
        # the documents do not say whether X / x inside a structure used as an operand
        # leaves the operand or an enclosing loop/function: parent "operand" makes the model skip
        return Fn(1, [node], fr.params, kind="operand")

    # ---- execution ------------------------------------------------------
    def run_program(self, program):
        main = Frame([100] if "H" in self.flags else [], is_main=True)
        self.main = main
        for node in program:
            self.run_node(node, main, None)
            self.top_trace.append(copy_trace(main.stack))
        self.final_stack = copy_trace(main.stack)
        self.final_depths = (len(self.context), len(self.inputs))
        # implicit output (main.execute_vyxal)
        originally_empty = not main.stack
        output = self.pop(main)
        for flag in self.flags:
            if flag == "j":
                if not isinstance(output, list) or any(not is_int(x) for x in output):
                    raise Skip("flag-j:non-flat")
                output = ("\n".join(fmt(x) for x in output), "str")
            elif flag == "s":
                if isinstance(output, tuple):
                    raise Skip("flag-s:string")
                if not isinstance(output, list):
                    raise Skip("flag-s:scalar")
                acc = None
                for x in output:
                    acc = x if acc is None else self.arith("+", acc, x)
                output = 0 if acc is None else acc
            elif flag == "W":
                if isinstance(output, tuple):
                    raise Skip("flag-W:string")
                if originally_empty:
                    output = []
                else:
                    main.stack.append(output)
                    output = (fmt(main.stack), "str")
        if not (self.printed or "O" in self.flags) or "o" in self.flags:
            if isinstance(output, tuple):
                self.emit(output[0] + "\n")
            else:
                self.emit(fmt(output) + "\n")
        return self

    def run_body(self, body, fr, parent):
        for node in body:
            self.run_node(node, fr, parent)
            if self.quirk_modtail and node[0] == "mod":
                parent = "modtail"

    def run_node(self, node, fr, parent):
        self.tick()
        k = node[0]
        if k == "num":
            self.push(fr, node[1])
        elif k == "el":
            self.element(node[1], fr)
        elif k == "vset":
            if not fr.is_main:
                raise Skip("variable-assignment-in-inner-scope")
            self.vars[node[1]] = self.pop(fr)
        elif k == "vget":
            if node[1] in fr.params:
                self.push(fr, fr.params[node[1]])
            elif node[1] in self.vars:
                v = self.vars[node[1]]
                self.push(fr, copy_value(v) if not isinstance(v, Fn) else v)
            else:
                raise Skip("variable-unset")
        elif k == "if":
            self.run_if(node[1], fr, parent or "if")
        elif k == "for":
            self.run_for(node, fr)
        elif k == "while":
            self.run_while(node, fr)
        elif k == "lam":
            self.push(fr, Fn(1 if node[1] is None else node[1], node[2], fr.params))
        elif k in ("map", "filter", "sort"):
            f = Fn(1, node[1], fr.params)
            if k != "sort":
                self.lazy(f)
            v = self.pop(fr)
            if isinstance(v, Fn):
                raise Skip("lambda-op:function-operand")
            if k == "sort":
                if not isinstance(v, list):
                    raise Skip("sort:number")  # goes through digit strings
                self.push(fr, self.sort_by(f, v))
            else:
                items = self.iter_of(v)
                if k == "map":
                    self.push(fr, [self.call_fn(f, [x]) for x in items])
                else:
                    self.push(fr, [x for x in items if self.truthy(self.call_fn(f, [x]))])
        elif k == "list":
            out = []
            for item in node[1]:
                sub = Frame([copy_value(x) if not isinstance(x, Fn) else x for x in fr.stack], params=fr.params, fn=fr.fn)
                self.run_body(item, sub, parent or "list")
                if sub.stack:
                    out.append(sub.stack.pop())
            self.push(fr, out)
        elif k == "def":
            if not fr.is_main:
                raise Skip("definition-in-inner-scope")
            self.funcs[node[1]] = node
        elif k == "call":
            self.call_named(node[1], fr)
        elif k == "mod":
            self.modifier(node, fr)
        elif k == "probe_exec":
            # `7`Ė : run the string "7" as a program on the current (main) stack
            if not fr.is_main:
                raise Skip("exec-probe-in-inner-scope")
            self.push(fr, 7)
        elif k == "brk":
            if parent in ("for", "while"):
                raise _Break()
            if parent == "lam":
                raise _Return(self.pop(fr))
            if parent == "def":
                raise _Return(None)
            # top level / if at top level / list item at top level: documented for loops and functions only
            if parent in (None, "if", "list", "modtail"):
                return
            raise Skip("break:" + str(parent))
        elif k == "rec":
            if parent == "for":
                raise _Continue()
            if parent == "while":
                raise Skip("recurse:while")  # documents do not say whether the condition is re-run
            if parent == "lam":
                if fr.fn is None:
                    raise Skip("recurse:no-function")
                self.push(fr, self.call_from_stack(fr.fn, fr))
                return
            if parent == "if":
                return
            raise Skip("recurse:" + str(parent))  # includes "modtail": not predictable
        else:
            raise Skip("node:" + k)

    def run_if(self, branches, fr, parent):
        cond = self.pop(fr)
        i = 0
        bound = False
        try:
            while True:
                if self.if_binds_n:
                    if bound:
                        self.context.pop()
                    self.context.append(copy_value(cond) if not isinstance(cond, Fn) else cond)
                    bound = True
                if self.truthy(cond):
                    self.run_body(branches[i], fr, parent)
                    return
                # falsey
                rest = len(branches) - (i + 1)
                if rest == 0:
                    return
                if rest == 1:
                    self.run_body(branches[i + 1], fr, parent)
                    return
                # condition code, then its body
                self.run_body(branches[i + 1], fr, parent)
                cond = self.pop(fr)
                i += 2
        finally:
            if bound:
                self.context.pop()

    def run_for(self, node, fr):
        _, name, body = node
        v = self.pop(fr)
        items = self.iter_of(v)
        if name is not None and not fr.is_main:
            raise Skip("loop-variable-in-inner-scope")
        for item in items:
            self.tick()
            if name is not None:
                self.vars[name] = item
            self.context.append(item)
            try:
                self.run_body(body, fr, "for")
            except _Break:
                break
            except _Continue:
                continue
            finally:
                self.context.pop()

    def run_while(self, node, fr):
        _, cond, body = node

        def evaluate():
            if cond is None:
                return 1
            self.run_body(cond, fr, "while")
            return self.pop(fr)

        c = evaluate()
        while self.truthy(c):
            self.tick()
            self.context.append(c)
            try:
                self.run_body(body, fr, "while")
            except _Break:
                break
            except _Continue:
                # documented as "next iteration": the condition is re-evaluated
                pass
            finally:
                self.context.pop()
            c = evaluate()

    def call_named(self, name, fr):
        if name not in self.funcs:
            raise Skip("call-undefined-function")
        self.tick(3)
        _, _, params, body = self.funcs[name]
        stack = []
        named = {}
        for p in params:
            if isinstance(p, int):
                stack += self.popn(fr, p)
            elif p == "*":
                raise Skip("varargs")
            else:
                named[p] = self.pop(fr)
        callee = Frame(stack, params=named, fn=("def", name))
        self.context.append([copy_value(x) if not isinstance(x, Fn) else x for x in stack])
        self.inputs.append([[x for x in stack][::-1], 0])
        if len(self.inputs) > 40:
            raise Skip("recursion-depth")
        try:
            try:
                self.run_body(body, callee, "def")
            except _Return:
                pass
        finally:
            self.context.pop()
            self.inputs.pop()
        for x in callee.stack:
            self.push(fr, x)

    def sort_by(self, f, items):
        keyed = []
        for x in items:
            kx = self.call_fn(f, [x])
            if not is_int(kx):
                raise Skip("sort:non-integer-key")
            keyed.append((kx, x))
        return [x for _, x in sorted(keyed, key=lambda t: t[0])]

    # ---- modifiers ------------------------------------------------------
    def modifier(self, node, fr):
        _, ch, ops = node
        if ch in ("⁽", "‡", "≬"):
            self.push(fr, Fn(1, list(ops), fr.params))
            return
        A = self.as_fn(ops[0], fr)
        if ch in ("v", "ɖ") or (ch == "~" and A.arity == 1):
            self.lazy(A)
        if ch == "v":
            if A.arity == 1:
                v = self.pop(fr)
                if isinstance(v, Fn):
                    raise Skip("v:function")
                self.push(fr, [self.call_fn(A, [x]) for x in self.iter_of(v)])
            elif A.arity == 2:
                rhs, lhs = self.popn(fr, 2)
                if isinstance(lhs, Fn) or isinstance(rhs, Fn):
                    raise Skip("v:function")
                if isinstance(lhs, list):
                    self.push(fr, [self.call_fn(A, [x, rhs]) for x in lhs])
                elif isinstance(rhs, list):
                    self.push(fr, [self.call_fn(A, [lhs, x]) for x in rhs])
                else:
                    raise Skip("v:two-scalars")  # goes through digit strings
            else:
                raise Skip("v:arity")
        elif ch == "&":
            if A.arity != 1:
                raise Skip("&:arity")
            self.register = self.call_fn(A, [self.register])
        elif ch == "~":
            if A.arity >= 2:
                if len(fr.stack) < A.arity:
                    # the arguments are popped like any other (one implicit read per missing
                    # argument, in order) and put back: the values read end up below what was there
                    missing = A.arity - len(fr.stack)
                    reads = [self.read_input(False) for _ in range(missing)]
                    fr.stack[:0] = reads[::-1]
                args = fr.stack[-A.arity:]
                self.push(fr, self.call_fn(A, [copy_value(a) if not isinstance(a, Fn) else a for a in args]))
            elif A.arity == 1:
                v = self.pop(fr)
                if isinstance(v, Fn):
                    raise Skip("~:function")
                self.push(fr, [x for x in self.iter_of(v) if self.truthy(self.call_fn(A, [x]))])
            else:
                raise Skip("~:arity0")
        elif ch == "ß":
            c = self.pop(fr)
            if self.truthy(c):
                self.push(fr, self.call_from_stack(A, fr))
        elif ch in ("₌", "₍"):
            B = self.as_fn(ops[1], fr)
            copy = Frame([copy_value(x) if not isinstance(x, Fn) else x for x in fr.stack], params=fr.params, fn=fr.fn)
            args_a = self.popn(copy, A.arity)
            args_b = self.popn(fr, B.arity)
            ra = self.call_fn(A, args_a[::-1])
            rb = self.call_fn(B, args_b[::-1])
            if ch == "₌":
                self.push(fr, ra)
                self.push(fr, rb)
            else:
                self.push(fr, [ra, rb])
        elif ch in ("ƒ", "ɖ"):
            v = self.pop(fr)
            if not isinstance(v, list):
                raise Skip(ch + ":non-list")  # numbers go through digit strings
            if ch == "ƒ":
                if not v:
                    self.push(fr, 0)
                else:
                    acc = v[0]
                    for x in v[1:]:
                        acc = self.call_fn(A, [acc, x])
                    self.push(fr, acc)
            else:
                if not v:
                    raise Skip("ɖ:empty")
                acc = v[0]
                out = [acc]
                for x in v[1:]:
                    acc = self.call_fn(A, [acc, x])
                    out.append(acc)
                self.push(fr, out)
        else:
            raise Skip("modifier:" + ch)

    # ---- elements -------------------------------------------------------
    def arith(self, op, a, b):
        if isinstance(a, Fn) or isinstance(b, Fn):
            raise Skip("arith:function")
        if is_int(a) and is_int(b):
            if op == "+":
                r = a + b
            elif op == "-":
                r = a - b
            elif op == "*":
                r = a * b
            elif op == "<":
                r = int(a < b)
            elif op == ">":
                r = int(a > b)
            else:
                r = int(a == b)
            if abs(r) > MAX_INT:
                raise Skip("size:int")
            return r
        self.tick()
        if isinstance(a, list) and isinstance(b, list):
            n = max(len(a), len(b))
            return [self.arith(op, a[i] if i < len(a) else 0, b[i] if i < len(b) else 0) for i in range(n)]
        if isinstance(a, list):
            return [self.arith(op, x, b) for x in a]
        return [self.arith(op, a, x) for x in b]

    def monad(self, op, a):
        if isinstance(a, Fn):
            raise Skip("arith:function")
        if is_int(a):
            r = {"›": a + 1, "‹": a - 1, "N": -a, "d": a * 2}[op]
            if abs(r) > MAX_INT:
                raise Skip("size:int")
            return r
        self.tick()
        return [self.monad(op, x) for x in a]

    def range_of(self, key, v):
        if isinstance(v, Fn):
            raise Skip(key + ":function")
        if is_int(v):
            r = list(range(1 if key == "ɾ" else 0, v + 1))
            if len(r) > MAX_LEN:
                raise Skip("size:len")
            return r
        self.tick()
        return [self.range_of(key, x) for x in v]

    def element(self, key, fr):
        if key in "+-*<>=":
            rhs, lhs = self.popn(fr, 2)
            self.push(fr, self.arith(key, lhs, rhs))
        elif key in "›‹Nd":
            self.push(fr, self.monad(key, self.pop(fr)))
        elif key == ":":
            v = self.pop(fr)
            self.push(fr, copy_value(v) if not isinstance(v, Fn) else v)
            self.push(fr, v)
        elif key == "D":
            v = self.pop(fr)
            for _ in range(3):
                self.push(fr, copy_value(v) if not isinstance(v, Fn) else v)
        elif key == "$":
            rhs, lhs = self.popn(fr, 2)
            self.push(fr, rhs)
            self.push(fr, lhs)
        elif key == "_":
            self.pop(fr)
        elif key == "w":
            self.push(fr, [self.pop(fr)])
        elif key == '"':
            rhs, lhs = self.popn(fr, 2)
            self.push(fr, [lhs, rhs])
        elif key == "W":
            temp = [x for x in fr.stack]
            fr.stack.clear()
            self.push(fr, temp)
        elif key == "^":
            fr.stack.reverse()
        elif key == "!":
            self.push(fr, len(fr.stack))
        elif key == "n":
            v = self.context[-1]
            self.push(fr, copy_value(v) if not isinstance(v, Fn) else v)
        elif key == "?":
            self.push(fr, self.read_input(True))
        elif key == "£":
            self.register = self.pop(fr)
        elif key == "¥":
            v = self.register
            self.push(fr, copy_value(v) if not isinstance(v, Fn) else v)
        elif key == "⅛":
            self.global_array.append(self.pop(fr))
            if len(self.global_array) > MAX_LEN:
                raise Skip("size:len")
        elif key == "¾":
            self.push(fr, [copy_value(x) if not isinstance(x, Fn) else x for x in self.global_array])
        elif key == "L":
            v = self.pop(fr)
            if isinstance(v, list):
                self.push(fr, len(v))
            elif is_int(v) and v >= 0:
                self.push(fr, len(str(v)))
            else:
                raise Skip("L:negative-or-function")
        elif key == "₀":
            self.push(fr, 10)
        elif key == "u":
            self.push(fr, -1)
        elif key == "∇":
            top, second, first = self.popn(fr, 3)
            self.push(fr, top)
            self.push(fr, first)
            self.push(fr, second)
        elif key in ("ɾ", "ʀ"):
            self.push(fr, self.range_of(key, self.pop(fr)))
        elif key in ("f", "h", "t", "Ṙ", "U", "∑", "G", "g"):
            v = self.pop(fr)
            if not isinstance(v, list):
                raise Skip(key + ":non-list")  # numbers go through their digits
            if has_fn(v):
                raise Skip(key + ":function-items")
            if key == "f":
                self.push(fr, flatten(v))
            elif key == "h":
                self.push(fr, copy_value(v[0]) if v else 0)
            elif key == "t":
                self.push(fr, copy_value(v[-1]) if v else 0)
            elif key == "Ṙ":
                self.push(fr, [copy_value(x) for x in reversed(v)])
            elif key == "U":
                out = []
                for x in v:
                    if x not in out:
                        out.append(copy_value(x))
                self.push(fr, out)
            elif key == "∑":
                acc = None
                for x in v:
                    acc = x if acc is None else self.arith("+", acc, x)
                self.push(fr, 0 if acc is None else copy_value(acc))
            else:
                flat = flatten(v)
                if not flat:
                    self.push(fr, [])
                else:
                    self.push(fr, max(flat) if key == "G" else min(flat))
        elif key in ("J", "p"):
            rhs, lhs = self.popn(fr, 2)
            if key == "p":
                lhs, rhs = rhs, lhs   # a.prepend(b) == merge(b, a)
            if isinstance(lhs, Fn) or isinstance(rhs, Fn):
                raise Skip(key + ":function")
            if isinstance(lhs, list) and isinstance(rhs, list):
                self.push(fr, copy_value(lhs) + copy_value(rhs))
            elif isinstance(lhs, list):
                self.push(fr, copy_value(lhs) + [rhs])
            elif isinstance(rhs, list):
                self.push(fr, [lhs] + copy_value(rhs))
            else:
                raise Skip(key + ":two-numbers")  # concatenates decimal digits
        elif key == "c":
            rhs, lhs = self.popn(fr, 2)
            if has_fn(lhs) or has_fn(rhs):
                raise Skip("c:function")
            if isinstance(lhs, list):
                self.push(fr, int(rhs in lhs))
            elif isinstance(rhs, list):
                self.push(fr, int(lhs in rhs))
            else:
                raise Skip("c:two-numbers")  # substring test on decimal digits
        elif key == ",":
            v = self.pop(fr)
            if has_fn(v):
                raise Skip("print:function")
            self.emit(fmt(v) + "\n")
        elif key == "₴":
            v = self.pop(fr)
            if has_fn(v):
                raise Skip("print:function")
            self.emit(fmt(v))
        elif key == "…":
            v = self.pop(fr)
            if has_fn(v):
                raise Skip("print:function")
            self.emit(fmt(v) + "\n")
            self.push(fr, v)
        elif key == "†":
            v = self.pop(fr)
            if not isinstance(v, Fn):
                raise Skip("†:non-function")
            self.push(fr, self.call_from_stack(v, fr))
        elif key == "M":
            rhs, lhs = self.popn(fr, 2)
            if isinstance(lhs, Fn) and isinstance(rhs, Fn):
                raise Skip("M:two-functions")
            if isinstance(rhs, Fn) or isinstance(lhs, Fn):
                f, v = (rhs, lhs) if isinstance(rhs, Fn) else (lhs, rhs)
                self.lazy(f)
                self.push(fr, [self.call_fn(f, [x]) for x in self.iter_of(v)])
            else:
                self.push(fr, [[copy_value(lhs), x] for x in self.iter_of(rhs)])
        elif key == "F":
            rhs, lhs = self.popn(fr, 2)
            if isinstance(lhs, Fn) and isinstance(rhs, Fn):
                raise Skip("F:two-functions")
            if isinstance(rhs, Fn) or isinstance(lhs, Fn):
                f, v = (rhs, lhs) if isinstance(rhs, Fn) else (lhs, rhs)
                self.lazy(f)
                self.push(fr, [x for x in self.iter_of(v) if self.truthy(self.call_fn(f, [x]))])
            elif isinstance(lhs, list) and isinstance(rhs, list):
                if has_fn(lhs) or has_fn(rhs):
                    raise Skip("F:function-items")
                self.push(fr, [x for x in lhs if x not in rhs])
            else:
                raise Skip("F:scalar")
        else:
            raise Skip("element:" + key)


def flatten(v):
    out = []
    for x in v:
        if isinstance(x, list):
            out.extend(flatten(x))
        else:
            out.append(x)
    return out


def copy_trace(stack):
    def conv(v):
        if isinstance(v, Fn):
            return {"x": "function"}
        if isinstance(v, list):
            return [conv(x) for x in v]
        return v

    return [conv(v) for v in stack]


IMPURE_KEYS = set("?£¥⅛¾,₴…†")


def impure(body):
    """True when a body contains an effect (or a read of mutable interpreter
    state) whose *timing* would be observable. The implementation evaluates
    map / filter / vectorise results lazily, so such bodies are outside what the
    documents determine: the model skips them."""
    for node in body:
        k = node[0]
        if k == "el" and node[1] in IMPURE_KEYS:
            return True
        if k in ("vset", "vget", "call", "def"):
            return True
        if k in ("if", "list"):
            if any(impure(b) for b in node[1]):
                return True
        elif k == "for":
            if node[1] is not None or impure(node[2]):
                return True
        elif k == "while":
            if impure(node[1] or []) or impure(node[2]):
                return True
        elif k == "lam":
            if impure(node[2]):
                return True
        elif k in ("map", "filter", "sort"):
            if impure(node[1]):
                return True
        elif k == "mod":
            if node[1] in ("&", "ß") or impure(node[2]):
                return True
    return False
