"""Ghost-truth invariant for `vyxal.LazyList.LazyList` (DESIGN §1 C13, M-CONTRACT).

Every lazy list the harness creates is *registered* with the finite sequence it
was built over (`register(lazy, truth)`). After every return (and every yield)
of a method defined in the `LazyList` class body the materialised cache
(`generated`) of a registered list must be a prefix of the truth.

Why sys.monitoring and not icontract: measured on this tree,
`icontract.invariant(cond)(LazyList)` replaces every method by a wrapper that
looks `self` up by parameter name; `LazyList.reversed` / `LazyList.filter` are
already wrapped by the repo's own `@lazylist` decorator (signature
`(*args, **kwargs)`), so the first call of `lazy.reversed()` under icontract
raises `KeyError: "The parameter 'self' could not be found ..."` — the wrapper
changes behaviour. PY_RETURN / PY_YIELD events set *locally* on the method code
objects have zero semantic interference (same reasoning as M-FRAME).

The monitor is secondary (it reads the internal attribute `generated`): it is
feature-detected, and `status()` says "unavailable" when the attribute or the
class is not there. It never raises into the code under test; breaches are
appended to `breaches` (bounded) and counted.
"""
from __future__ import annotations

import sys

TRUTH_ATTR = "_verif_ghost_truth"

state = {
    "installed": False,
    "available": None,      # None = not probed, True/False
    "tool_id": None,
    "checks": 0,            # invariant evaluations on registered lists
    "events": 0,            # monitoring events seen (registered or not)
    "breach_count": 0,
    "methods": [],
}
breaches = []               # [{"method":..., "generated":..., "truth":...}], bounded
MAX_BREACHES = 50
_codes = {}


def register(lazy, truth):
    """Attach the ghost truth (a plain list that nobody else references)."""
    lazy.__dict__[TRUTH_ATTR] = truth
    return lazy


def truth_of(lazy):
    return lazy.__dict__.get(TRUTH_ATTR)


def is_prefix(generated, truth):
    n = len(generated)
    return n <= len(truth) and generated == truth[:n]


def _check(code):
    state["events"] += 1
    try:
        frame = sys._getframe(2)
        if frame.f_code is not code:
            return
        slf = frame.f_locals.get("self")
        if slf is None:
            return
        d = getattr(slf, "__dict__", None)
        if not d:
            return
        truth = d.get(TRUTH_ATTR)
        if truth is None:
            return
        gen = d.get("generated")
        if gen is None:
            return
        state["checks"] += 1
        n = len(gen)
        if n > len(truth) or gen != truth[:n]:
            state["breach_count"] += 1
            if len(breaches) < MAX_BREACHES:
                breaches.append({"method": _codes.get(code, code.co_name),
                                 "generated": list(gen)[:40], "truth": list(truth)[:40]})
    except Exception:  # noqa - a monitor must never disturb the run
        pass


def _on_return(code, offset, retval):
    _check(code)


def _on_yield(code, offset, retval):
    _check(code)


def install():
    """Idempotent. Returns True when the monitor is live."""
    if state["installed"]:
        return bool(state["available"])
    state["installed"] = True
    try:
        from vyxal.LazyList import LazyList
    except Exception:  # noqa
        state["available"] = False
        return False
    probe = LazyList(iter([0]))
    if not isinstance(getattr(probe, "__dict__", {}).get("generated"), list):
        state["available"] = False
        return False
    mon = sys.monitoring
    tool = None
    for cand in (3, 4, 1, 5, 2, 0):
        if mon.get_tool(cand) is None:
            tool = cand
            break
    if tool is None:
        state["available"] = False
        return False
    mon.use_tool_id(tool, "verif-lazyghost")
    state["tool_id"] = tool
    ev = mon.events
    mon.register_callback(tool, ev.PY_RETURN, _on_return)
    mon.register_callback(tool, ev.PY_YIELD, _on_yield)
    import types

    def codes_of(co, prefix):
        # the method's own code object and generator/closure bodies defined in
        # the class body; `lazylist.<locals>.wrapped` is shared by every
        # @lazylist function of the repo and is deliberately not hooked.
        out = []
        if co.co_qualname.startswith(prefix):
            out.append(co)
        return out

    n = 0
    for name, obj in vars(LazyList).items():
        fn = obj
        if isinstance(fn, (staticmethod, classmethod)):
            fn = fn.__func__
        if not isinstance(fn, types.FunctionType):
            continue
        cands = [fn.__code__]
        # @lazylist-wrapped methods: the real body lives in the closure
        for cell in fn.__closure__ or ():
            try:
                inner = cell.cell_contents
            except ValueError:
                continue
            if isinstance(inner, types.FunctionType):
                cands.append(inner.__code__)
        for co in cands:
            if not co.co_qualname.startswith("LazyList."):
                continue
            if co in _codes:
                continue
            _codes[co] = name
            mon.set_local_events(tool, co, ev.PY_RETURN | ev.PY_YIELD)
            n += 1
    state["methods"] = sorted(set(_codes.values()))
    state["available"] = n > 0
    return state["available"]


def drain():
    """Return and clear recorded breaches (the counters keep running)."""
    out = list(breaches)
    breaches.clear()
    return out


def status():
    if state["available"] is None:
        return "not installed"
    return "available" if state["available"] else "unavailable"
