"""Binding to the repository under test and helpers to execute Vyxal programs.

Python has no build step: "rebuild from /repo's working tree" means a fresh
interpreter that puts VERIF_REPO (default /repo) first on sys.path and imports
`vyxal` from there. Every worker process does exactly that.
"""
from __future__ import annotations

import io
import os
import sys

VERIF = os.path.dirname(os.path.dirname(os.path.abspath(__file__)))
REPO = os.environ.get("VERIF_REPO", "/repo")
GUARD = "VYXAL2_VERIF"

_bound = False


def ensure_deps():
    """Third-party monitor libraries (icontract) live in /verif/.deps.

    .deps is git-ignored, so a fresh checkout does not have it; install it from
    the offline wheelhouse on demand (setup_cmd does the same)."""
    deps = os.path.join(VERIF, ".deps")
    marker = os.path.join(deps, "icontract")
    if not os.path.isdir(marker):
        import fcntl
        import subprocess

        os.makedirs(deps, exist_ok=True)
        with open(os.path.join(VERIF, ".deps.lock"), "w") as lock:
            fcntl.flock(lock, fcntl.LOCK_EX)
            if not os.path.isdir(marker):
                subprocess.run(
                    [
                        sys.executable, "-m", "pip", "install", "-q",
                        "--no-index", "--find-links", "/opt/veriftools/wheels",
                        "--target", deps, "icontract",
                    ],
                    stdout=subprocess.DEVNULL, stderr=subprocess.DEVNULL,
                    check=False,
                )
    if deps not in sys.path:
        sys.path.append(deps)
    return os.path.isdir(marker)


def bind():
    """Make `import vyxal` resolve to VERIF_REPO and return the main module."""
    global _bound
    if not _bound:
        os.environ[GUARD] = "1"
        for name in list(sys.modules):
            if name == "vyxal" or name.startswith("vyxal."):
                del sys.modules[name]
        if REPO in sys.path:
            sys.path.remove(REPO)
        sys.path.insert(0, REPO)
        sys.setrecursionlimit(max(sys.getrecursionlimit(), 3000))
        _bound = True
    import vyxal.main  # noqa

    got = os.path.realpath(os.path.dirname(os.path.dirname(vyxal.main.__file__)))
    if got != os.path.realpath(REPO):
        raise RuntimeError(f"vyxal imported from {got}, expected {REPO}")
    return vyxal.main


class Ran:
    __slots__ = ("stack", "ctx", "error", "code", "ns")

    def __init__(self):
        self.stack = None
        self.ctx = None
        self.error = None
        self.code = None
        self.ns = None


def fresh_ns(stack, ctx):
    """Isolated exec namespace, the way execute_vyxal builds it
    (`locals() | globals()` of vyxal.main): templates assign names like `res`,
    `top`, `lhs` in whatever globals they are exec'd in."""
    main = bind()
    ns = dict(vars(main))
    ns["stack"] = stack
    ns["ctx"] = ctx
    return ns


def new_ctx(inputs=(), flags=""):
    """A Context set up the way execute_vyxal sets it up (documented flags)."""
    bind()
    from vyxal.context import Context

    ctx = Context()
    ctx.inputs[0][0] = list(inputs)
    if "Ṁ" in flags:
        ctx.range_start = 0
        ctx.range_end = 0
    elif "M" in flags:
        ctx.range_start = 0
    elif "m" in flags:
        ctx.range_end = 0
    ctx.dictionary_compression = "D" not in flags
    return ctx


def run_text(program, inputs=(), stack=None, dict_compress=True, ctx=None,
             flags=""):
    """tokenise -> parse -> transpile -> exec on a fresh context.

    Returns Ran(stack, ctx, error, code). Exceptions of the program are caught
    and returned in .error (BaseExceptions such as the watchdog propagate)."""
    main = bind()
    from vyxal.transpile import transpile

    r = Ran()
    r.ctx = ctx if ctx is not None else new_ctx(inputs, flags)
    r.stack = [] if stack is None else stack
    r.ctx.stacks.append(r.stack)
    try:
        r.code = transpile(program, dict_compress)
    except Exception as e:  # noqa
        r.error = ("transpile", e)
        return r
    r.ns = fresh_ns(r.stack, r.ctx)
    try:
        exec(compile(r.code, "<vyxal-program>", "exec"), r.ns)
    except SystemExit as e:
        r.error = ("exit", e)
    except Exception as e:  # noqa
        r.error = ("exec", e)
    r.stack = r.ns.get("stack", r.stack)
    return r


class StdoutCapture:
    """Records what is written to sys.stdout *and* to file descriptor 1."""

    def __init__(self):
        self.text = ""
        self.fd_bytes = b""

    def __enter__(self):
        import tempfile

        sys.stdout.flush()
        self._old = sys.stdout
        self._buf = io.StringIO()
        sys.stdout = self._buf
        self._tmp = tempfile.TemporaryFile()
        self._saved_fd = os.dup(1)
        os.dup2(self._tmp.fileno(), 1)
        return self

    def __exit__(self, *exc):
        sys.stdout = self._old
        os.dup2(self._saved_fd, 1)
        os.close(self._saved_fd)
        self._tmp.seek(0)
        self.fd_bytes = self._tmp.read()
        self._tmp.close()
        self.text = self._buf.getvalue()
        return False
