"""Supervisor: fans work units out to worker subprocesses, aggregates what the
monitors observed, applies the known-findings file, writes evidence + replay
files and produces the three-valued verdict.

Property module API (lib/props/cNN.py):

    ID, LEVEL, RULE, ASSUMPTIONS, DESIGN_REF
    MIN_COUNTERS = {"counter": minimum}        # below => INCONCLUSIVE
    units(tier, seed) -> list of JSON-able work units
    setup_worker() -> None                     # once per worker process
    run_unit(unit) -> result dict:
        evals        int   executions observed by the deciding monitor
        keys         list  short hashes of distinct non-trivial cases  (or)
        distinct     int   count, when units are disjoint by construction
        violations   list  of witness dicts (must contain "unit": a unit that
                           re-runs just this case, and "what": one line)
        inconclusive list  of {"why":..., ...}
        skips        dict  reason -> n
        counters     dict  monitor/event name -> n
        samples      list  a few real cases
    classify(witness) -> known-finding id or None
    finalize(agg) -> dict of extra coverage keys           (optional)
"""
from __future__ import annotations

import hashlib
import importlib
import json
import os
import queue
import select
import shutil
import signal
import subprocess
import sys
import tempfile
import threading
import time

VERIF = os.path.dirname(os.path.dirname(os.path.abspath(__file__)))
PY = sys.executable


def nworkers():
    try:
        n = int(os.environ.get("VERIF_WORKERS", "0"))
    except ValueError:
        n = 0
    if n <= 0:
        n = min(16, os.cpu_count() or 4)
    return n


def short_hash(obj) -> str:
    s = json.dumps(obj, sort_keys=True, ensure_ascii=False, default=str)
    return hashlib.blake2b(s.encode("utf-8", "surrogatepass"), digest_size=8).hexdigest()


def load_known():
    path = os.path.join(VERIF, "known_findings.json")
    try:
        with open(path, encoding="utf-8") as f:
            data = json.load(f)
    except FileNotFoundError:
        return {}
    out = {}
    for e in data.get("findings", []):
        out[e["id"]] = e
    return out


class Worker:
    def __init__(self, prop, workdir, idx):
        self.prop = prop
        self.idx = idx
        self.workdir = workdir
        self.proc = None
        self.start()

    def start(self):
        to_r, to_w = os.pipe()
        from_r, from_w = os.pipe()
        self.errlog = os.path.join(self.workdir, f"worker{self.idx}.err")
        env = dict(os.environ)
        env["PYTHONHASHSEED"] = "0"
        env["PYTHONDONTWRITEBYTECODE"] = "1"
        env["PYTHONIOENCODING"] = "utf-8"
        env.setdefault("VERIF_REPO", "/repo")
        env["VYXAL2_VERIF"] = "1"
        try:  # deep lazy-list nesting recurses through C frames: give workers a large C stack
            import resource

            soft, hard = resource.getrlimit(resource.RLIMIT_STACK)
            want = 1 << 30
            if hard != resource.RLIM_INFINITY:
                want = min(want, hard)
            if soft == resource.RLIM_INFINITY or soft < want:
                resource.setrlimit(resource.RLIMIT_STACK, (want, hard))
        except Exception:  # noqa
            pass
        self.proc = subprocess.Popen(
            [PY, "-X", "utf8", os.path.join(VERIF, "lib", "worker.py"), self.prop,
             str(to_r), str(from_w)],
            stdin=subprocess.DEVNULL,
            stdout=subprocess.DEVNULL,
            stderr=open(self.errlog, "ab"),
            pass_fds=(to_r, from_w),
            env=env,
            cwd=self.workdir,
            start_new_session=True,
        )
        os.close(to_r)
        os.close(from_w)
        self.w = os.fdopen(to_w, "w", encoding="utf-8")
        self.r = os.fdopen(from_r, "rb", buffering=0)
        self.buf = b""

    def kill(self):
        try:
            os.killpg(self.proc.pid, signal.SIGKILL)
        except Exception:  # noqa
            pass
        try:
            self.proc.wait(timeout=10)
        except Exception:  # noqa
            pass
        for f in (self.w, self.r):
            try:
                f.close()
            except Exception:  # noqa
                pass

    def call(self, unit, timeout):
        """Send one unit, wait for its result line. Returns (status, result)."""
        try:
            self.w.write(json.dumps(unit, ensure_ascii=True) + "\n")
            self.w.flush()
        except (BrokenPipeError, OSError):
            return "crash", None
        deadline = time.monotonic() + timeout
        while True:
            nl = self.buf.find(b"\n")
            if nl >= 0:
                line, self.buf = self.buf[:nl], self.buf[nl + 1:]
                try:
                    return "ok", json.loads(line.decode("utf-8"))
                except Exception:  # noqa
                    return "crash", None
            left = deadline - time.monotonic()
            if left <= 0:
                return "timeout", None
            ready, _, _ = select.select([self.r], [], [], min(left, 5.0))
            if ready:
                chunk = self.r.read(1 << 16)
                if not chunk:
                    return "crash", None
                self.buf += chunk
            elif self.proc.poll() is not None:
                return "crash", None

    def err_tail(self, n=1500):
        try:
            with open(self.errlog, "rb") as f:
                f.seek(0, 2)
                size = f.tell()
                f.seek(max(0, size - n))
                return f.read().decode("utf-8", "replace")
        except Exception:  # noqa
            return ""


def run_units(prop, units, default_timeout=600, splitter=None):
    """Run all units on a pool of persistent workers. Returns list of
    (unit, status, result). A unit whose worker crashes or times out is re-run
    alone once on a fresh worker; if it fails again and the property module can
    split it (split_unit), its cases are run one per unit so that only the
    offending case is lost (reported as an inconclusive case)."""
    workdir = tempfile.mkdtemp(prefix=f"verif-{prop}-")
    q = queue.Queue()
    results = {}
    pending = [0]
    lock = threading.Lock()
    for i, u in enumerate(units):
        q.put((i, u, 0))
        pending[0] += 1
    counter = [len(units)]
    n = max(1, min(nworkers(), len(units)))

    def done():
        with lock:
            pending[0] -= 1

    def loop(idx):
        w = Worker(prop, workdir, idx)
        try:
            while True:
                try:
                    i, u, attempt = q.get(timeout=0.5)
                except queue.Empty:
                    with lock:
                        if pending[0] <= 0:
                            return
                    continue
                tmo = u.get("timeout", default_timeout) if isinstance(u, dict) else default_timeout
                if attempt >= 2:
                    tmo = min(tmo, 60)
                try:
                    status, res = w.call(u, tmo)
                except Exception as e:  # noqa  (never let a supervisor thread die with a unit in flight)
                    status, res = "crash", None
                    sys.stderr.write(f"supervisor: {type(e).__name__}: {e}\n")
                if status != "ok":
                    tail = w.err_tail()
                    w.kill()
                    for _try in range(3):
                        try:
                            w = Worker(prop, workdir, idx)
                            break
                        except Exception as e:  # noqa
                            sys.stderr.write(f"supervisor: cannot start worker: {type(e).__name__}: {e}\n")
                            time.sleep(1.0)
                    if attempt == 0:
                        q.put((i, u, 1))  # re-run alone once (fresh worker)
                        continue
                    parts = None
                    if attempt == 1 and splitter is not None:
                        try:
                            parts = splitter(u)
                        except Exception:  # noqa
                            parts = None
                    if parts and len(parts) > 1:
                        with lock:
                            for pu in parts:
                                q.put((counter[0], pu, 2))
                                counter[0] += 1
                                pending[0] += 1
                        done()
                        continue
                    with lock:
                        results[i] = (u, status if attempt < 2 else "case-" + status, {"stderr_tail": tail})
                    done()
                    continue
                with lock:
                    results[i] = (u, "ok", res)
                done()
                if isinstance(res, dict) and res.get("_recycle"):
                    # the worker grew large: start a fresh interpreter
                    w.kill()
                    w = Worker(prop, workdir, idx)
        finally:
            w.kill()

    threads = [threading.Thread(target=loop, args=(k,), daemon=True) for k in range(n)]
    for t in threads:
        t.start()
    for t in threads:
        t.join()
    shutil.rmtree(workdir, ignore_errors=True)
    return [results[k] for k in sorted(results)]


def aggregate(mod, results):
    agg = {
        "evals": 0,
        "keys": set(),
        "distinct": 0,
        "violations": [],
        "inconclusive": [],
        "skips": {},
        "counters": {},
        "samples": [],
        "units": len(results),
        "units_failed": 0,
    }
    for item in results:
        if item is None:
            agg["units_failed"] += 1
            agg["inconclusive"].append({"why": "unit lost"})
            continue
        unit, status, res = item
        if status.startswith("case-"):
            agg["inconclusive"].append(
                {"why": f"worker {status[5:]} on this single case", "unit": unit, "stderr": (res or {}).get("stderr_tail", "")[-300:]}
            )
            continue
        if status != "ok":
            agg["units_failed"] += 1
            agg["inconclusive"].append(
                {"why": f"worker {status}", "unit": unit, "stderr": (res or {}).get("stderr_tail", "")[-600:]}
            )
            continue
        if res.get("fatal"):
            agg["units_failed"] += 1
            agg["inconclusive"].append({"why": "harness error: " + res["fatal"][-1500:], "unit": unit})
            continue
        agg["evals"] += res.get("evals", 0)
        agg["keys"].update(res.get("keys", ()))
        agg["distinct"] += res.get("distinct", 0)
        agg["violations"].extend(res.get("violations", ()))
        agg["inconclusive"].extend(res.get("inconclusive", ()))
        for k, v in res.get("skips", {}).items():
            agg["skips"][k] = agg["skips"].get(k, 0) + v
        for k, v in res.get("counters", {}).items():
            agg["counters"][k] = agg["counters"].get(k, 0) + v
        if len(agg["samples"]) < 12:
            agg["samples"].extend(res.get("samples", ())[: 12 - len(agg["samples"])])
    return agg


def write_replay(prop, witness):
    d = os.path.join(VERIF, "replay", prop)
    os.makedirs(d, exist_ok=True)
    path = os.path.join(d, short_hash(witness.get("unit", witness)) + ".json")
    with open(path, "w", encoding="utf-8") as f:
        json.dump(witness, f, ensure_ascii=True, indent=1, default=str)
    return path


def validate_evidence(ev):
    """Structural check (mirror of EVIDENCE.schema.json's requirements); the
    full schema is applied too when jsonschema is importable."""
    for k in ("property_id", "tier", "seed", "level", "coverage", "wall_s"):
        assert k in ev, k
    cov = ev["coverage"]
    if ev["level"] in ("exploration", "fault_enumeration"):
        assert cov["evaluations"] >= 1 and cov["distinct_nontrivial"] >= 2
        assert isinstance(cov["rule"], str) and len(cov["samples"]) >= 1
    try:
        import jsonschema  # noqa

        with open("/root/.vp/EVIDENCE.schema.json") as f:
            jsonschema.validate(ev, json.load(f))
    except ImportError:
        pass
    except FileNotFoundError:
        pass


def run_check(prop, tier, seed):
    t0 = time.time()
    mod = importlib.import_module(f"lib.props.{prop.lower()}")
    units = mod.units(tier, seed)
    results = run_units(prop, units, getattr(mod, "UNIT_TIMEOUT", 900), getattr(mod, "split_unit", None))
    agg = aggregate(mod, results)
    known = load_known()

    classify = getattr(mod, "classify", lambda w: None)
    new_violations = []
    known_hits = {}
    fixed_regressions = []
    for w in agg["violations"]:
        fid = None
        try:
            fid = classify(w)
        except Exception:  # noqa
            fid = None
        entry = known.get(fid) if fid else None
        if entry and entry.get("property") == prop and entry.get("status") == "open":
            known_hits.setdefault(fid, []).append(w)
        else:
            if entry and entry.get("status") == "fixed":
                w["regression_of"] = fid
            new_violations.append(w)

    distinct = len(agg["keys"]) + agg["distinct"]
    coverage = {
        "evaluations": agg["evals"],
        "distinct_nontrivial": distinct,
        "rule": mod.RULE,
        "samples": agg["samples"][:12],
        "units": agg["units"],
        "units_failed": agg["units_failed"],
        "monitor_counters": dict(sorted(agg["counters"].items())),
        "skips": dict(sorted(agg["skips"].items())),
        "inconclusive_cases": len(agg["inconclusive"]),
        "inconclusive_samples": agg["inconclusive"][:5],
        "known_findings_seen": {k: len(v) for k, v in sorted(known_hits.items())},
        "violations_total_including_known": len(agg["violations"]),
    }
    if hasattr(mod, "finalize"):
        try:
            coverage.update(mod.finalize(agg, tier) or {})
        except Exception as e:  # noqa
            coverage["finalize_error"] = repr(e)

    # --- verdict -----------------------------------------------------------
    reasons = []
    for name, minimum in getattr(mod, "MIN_COUNTERS", {}).items():
        m = minimum[tier] if isinstance(minimum, dict) else minimum
        if agg["counters"].get(name, 0) < m:
            reasons.append(f"monitor '{name}' observed {agg['counters'].get(name, 0)} < {m} events")
    if agg["evals"] < 1 or distinct < 2:
        reasons.append("nothing observed")
    tot_cases = max(1, agg["evals"])
    if agg["units_failed"] > max(0, 0.02 * agg["units"]) or len(agg["inconclusive"]) > max(
        getattr(mod, "MAX_INCONCLUSIVE_ABS", 3), getattr(mod, "MAX_INCONCLUSIVE_FRAC", 0.02) * tot_cases
    ):
        reasons.append(
            f"{len(agg['inconclusive'])} inconclusive cases / {agg['units_failed']} failed units"
        )

    level = mod.LEVEL
    if level == "translation_validation":
        coverage.setdefault("programs", distinct)
        coverage.setdefault("disagreements_checked", len(agg["violations"]))
    coverage["exhaustive"] = bool(coverage.get("exhaustive", False))

    ev = {
        "property_id": prop,
        "tier": tier,
        "seed": seed,
        "level": level,
        "coverage": coverage,
        "assumptions": list(getattr(mod, "ASSUMPTIONS", [])),
        "wall_s": round(time.time() - t0, 2),
        "violations": len(new_violations),
        "verdict": "violated" if new_violations else ("inconclusive" if reasons else "held"),
        "inconclusive_reasons": reasons,
        "repo": os.environ.get("VERIF_REPO", "/repo"),
    }
    # selftest runs against scratch copies point this elsewhere so the real tree's evidence survives
    evdir = os.environ.get("VERIF_EVIDENCE_DIR") or os.path.join(VERIF, "evidence")
    os.makedirs(evdir, exist_ok=True)
    evpath = os.path.join(evdir, f"{prop}.json")
    try:
        validate_evidence(ev)
    except Exception as e:  # noqa
        ev["evidence_self_check"] = f"failed: {e!r}"
    with open(evpath, "w", encoding="utf-8") as f:
        json.dump(ev, f, ensure_ascii=True, indent=1, default=str)
        f.write("\n")

    for fid, ws in sorted(known_hits.items()):
        print(f"KNOWN-FINDING: property={prop} {fid}: {known[fid]['what']} "
              f"[{len(ws)} witnesses this run, e.g. {ws[0].get('what', '')[:160]}]")
    print(
        f"{prop} tier={tier} seed={seed}: {agg['evals']} evaluations, {distinct} distinct non-trivial, "
        f"{len(agg['violations'])} raw violations ({len(new_violations)} unlisted), "
        f"{len(agg['inconclusive'])} inconclusive, {ev['wall_s']}s"
    )
    if new_violations:
        seen = set()
        for w in new_violations[:200]:
            sig = w.get("mechanism") or w.get("what", "")[:80]
            if sig in seen and len(seen) > 0:
                continue
            seen.add(sig)
            path = write_replay(prop, w)
            print(f"  witness: {w.get('what', '')[:300]}")
            print(f"VIOLATION property={prop} replay={path}")
            if len(seen) >= 10:
                break
        return 1
    if reasons:
        print(f"INCONCLUSIVE property={prop} " + "; ".join(reasons))
        return 2
    return 0


def run_replay(prop, path):
    mod = importlib.import_module(f"lib.props.{prop.lower()}")
    with open(path, encoding="utf-8") as f:
        w = json.load(f)
    unit = w.get("unit", w)
    results = run_units(prop, [unit], getattr(mod, "UNIT_TIMEOUT", 900))
    agg = aggregate(mod, results)
    print(json.dumps({"violations": agg["violations"][:3], "inconclusive": agg["inconclusive"][:3],
                      "evals": agg["evals"]}, ensure_ascii=False, indent=1, default=str))
    if agg["violations"]:
        print(f"VIOLATION property={prop} replay={path}")
        return 1
    return 0
