"""Self-validation: apply each mutant patch to a scratch copy of the repository
(outside /repo and /verif, removed immediately afterwards), run the property's
quick check against it and require exit 1 with a VIOLATION line.

    ./check selftest                 all mutants/*.patch
    ./check selftest C13             only patches whose name starts with C13
    ./check selftest --tests C13     additionally run the repo's own test-suite on the mutant
                                     (must stay green: that is what makes the mutant realistic)
    ./check selftest --seeded        the independently written changes under seeded/<id>/patch.diff

Not part of any registered command's verdict; this is how the monitors are trusted."""
from __future__ import annotations

import glob
import json
import os
import shutil
import subprocess
import sys
import tempfile
import time

VERIF = os.path.dirname(os.path.dirname(os.path.abspath(__file__)))


def scratch_copy():
    d = tempfile.mkdtemp(prefix="verif-mutant-")
    dst = os.path.join(d, "repo")
    shutil.copytree("/repo", dst, ignore=shutil.ignore_patterns(".git", "__pycache__", ".pytest_cache"))
    return d, dst


def run_one(patch, prop, with_tests=False, extra_props=()):
    d, dst = scratch_copy()
    out = {"patch": os.path.relpath(patch, VERIF), "property": prop}
    try:
        p = subprocess.run(["patch", "-p1", "-s", "--no-backup-if-mismatch", "-i", patch], cwd=dst,
                           capture_output=True, text=True)
        if p.returncode != 0:
            out["status"] = "patch-failed"
            out["detail"] = (p.stdout + p.stderr)[-400:]
            return out
        env = dict(os.environ, VERIF_REPO=dst, VERIF_EVIDENCE_DIR=os.path.join(d, "evidence"))
        env.setdefault("VERIF_SEED", "0")
        if with_tests:
            t = subprocess.run(["/venv/bin/python", "-m", "pytest", "-q", "-x", "-p", "no:cacheprovider",
                                "--timeout=900"], cwd=dst, capture_output=True, text=True, stdin=subprocess.DEVNULL)
            out["tests_green"] = t.returncode == 0
            out["tests_tail"] = t.stdout.strip().splitlines()[-1:] if t.stdout else []
        caught = {}
        for pr in (prop,) + tuple(extra_props):
            t0 = time.time()
            c = subprocess.run([os.path.join(VERIF, "check"), pr, "--tier", "quick"], cwd=VERIF, env=env,
                               capture_output=True, text=True, stdin=subprocess.DEVNULL)
            lines = [ln for ln in c.stdout.splitlines() if ln.startswith("VIOLATION")]
            wit = [ln for ln in c.stdout.splitlines() if ln.strip().startswith("witness:")]
            caught[pr] = {"exit": c.returncode, "violations": len(lines), "wall_s": round(time.time() - t0, 1),
                          "witness": wit[0].strip()[:300] if wit else ""}
        out["checks"] = caught
        out["status"] = "caught" if caught[prop]["exit"] == 1 and caught[prop]["violations"] else "MISSED"
        return out
    finally:
        shutil.rmtree(d, ignore_errors=True)


def main(args, tier):
    with_tests = "--tests" in args
    seeded = "--seeded" in args
    sel = [a for a in args if not a.startswith("--")]
    items = []
    if seeded:
        for meta in sorted(glob.glob(os.path.join(VERIF, "seeded", "*", "meta.json"))):
            with open(meta, encoding="utf-8") as f:
                m = json.load(f)
            patch = os.path.join(os.path.dirname(meta), "patch.diff")
            items.append((patch, m["property"], tuple(m.get("also_check", []))))
    else:
        for patch in sorted(glob.glob(os.path.join(VERIF, "mutants", "*.patch"))):
            prop = os.path.basename(patch).split("-")[0]
            items.append((patch, prop, ()))
    if sel:
        items = [it for it in items if any(os.path.basename(os.path.dirname(it[0]) if seeded else it[0]).startswith(s) or it[1] == s for s in sel)]
    # mutant runs write their evidence into the scratch directory (VERIF_EVIDENCE_DIR), never into evidence/
    jobs = 1
    for a in args:
        if a.startswith("--jobs="):
            jobs = int(a.split("=", 1)[1])
    missed = 0
    from concurrent.futures import ThreadPoolExecutor
    with ThreadPoolExecutor(max_workers=jobs) as ex:
        for r in ex.map(lambda it: run_one(it[0], it[1], with_tests, it[2]), items):
            print(json.dumps(r, ensure_ascii=False))
            sys.stdout.flush()
            if r["status"] != "caught":
                missed += 1
    print(f"selftest: {len(items)} mutants, {missed} not caught")
    return 1 if missed else 0
