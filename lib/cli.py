from __future__ import annotations

import argparse
import os
import sys

VERIF = os.path.dirname(os.path.dirname(os.path.abspath(__file__)))
sys.path.insert(0, VERIF)


def main():
    ap = argparse.ArgumentParser()
    ap.add_argument("prop")
    ap.add_argument("--tier", default=os.environ.get("VERIF_TIER") or "quick", choices=["quick", "thorough"])
    ap.add_argument("--replay")
    ap.add_argument("rest", nargs="*")
    a, extra = ap.parse_known_args()
    a.rest = list(a.rest) + list(extra)
    try:
        seed = int(os.environ.get("VERIF_SEED", "0"))
    except ValueError:
        seed = 0
    if a.prop == "selftest":
        from lib import selftest

        sys.exit(selftest.main(a.rest, a.tier))
    from lib import env, harness

    env.ensure_deps()
    prop = a.prop.upper()
    if a.replay:
        sys.exit(harness.run_replay(prop, a.replay))
    sys.exit(harness.run_check(prop, a.tier, seed))


if __name__ == "__main__":
    main()
