#!/usr/bin/env python3
"""Regenerates MANIFEST.json from the table below (kept in one place so the
manifest stays valid and consistent while checks are added)."""
import json
import os

HERE = os.path.dirname(os.path.dirname(os.path.abspath(__file__)))

CHECKS = {
    # id: (level, technique, level text, level note)
    "C01": ("translation_validation",
            "reference-model monitor: generated structure programs run through execute_vyxal under an exec/namespace probe, stdout recorder and sys.monitoring LINE trace; final stack, stdout and stack-shape trace compared with an executable model of the documented semantics",
            "Per-program translation validation: every generated program that the documents determine is executed by the real pipeline and compared (final stack, printed text, termination, stack shapes at top-level statement boundaries) with a reference interpreter of the generator's AST.",
            "Trusts the reference model (written from the specs; skips where they are silent) and the probe that captures the exec namespace; covers the closed core of ~35 elements only."),
    "C02": ("exploration",
            "icontract postcondition on transpile (result compiles) over grammar-derived programs: every element key, every non-element token and every modifier operand form x ~70 positions, break/recurse x parents, names over the code page, every header spelling, exhaustive <=5-token programs, random G-full",
            "Exploration with a runtime contract on the real transpiler; exhaustive for the small structural alphabet, sampled beyond.",
            "Well-formedness is decided by construction of the generator (own reference lexer self-check), never by the repo's parser."),
    "C03": ("exploration",
            "metamorphic monitor on parse(tokenise(.)): 64 contexts (structure positions, modifier slots, nested, truncated, break after a modifier operand, 120-240 token bodies) x 7 literal kinds x all payloads of length<=2 over the syntax-significant characters, plus random nestings; tree and token events and the generated Python must differ only at the literal",
            "Exhaustive over the bounded payload/context space stated in the property, sampled beyond.",
            "Contexts are a fixed committed set; the literal's position is located by differential runs with harmless payloads."),
    "C04": ("exploration",
            "metamorphic monitor: repr(parse(tokenise(closed))) == repr(parse(tokenise(truncated))) for every droppable suffix of closers of grammar-derived programs and exhaustive small ASTs",
            "Exploration over generated programs and all their truncation points; exhaustive for ASTs <= 4 nodes in the thorough tier.",
            "Droppable suffixes are computed by the generator from its own AST."),
    "C05": ("exploration",
            "execution of literals through tokenise/transpile/exec with a Fraction oracle and a reference scanner for the documented splitting rule; integers exhaustively, hostile decimal expansions, digit/point patterns exhaustively",
            "Exhaustive ranges plus boundary-heavy sampling; exact type and value checked on the live stack.",
            "fractions.Fraction and an 8-line reference scanner are the oracle."),
    "C06": ("exploration",
            "round-trip monitor: q applied through program text, its output run as a program (compression off / on), plus hand-escaped literals; exhaustive short strings over the escape-relevant subset and all 2-character code-page strings",
            "Exhaustive for the stated small spaces, random beyond.",
            "Equality with the original string is the oracle."),
    "C07": ("exploration",
            "execution of + - * / % ḭ through program text against fractions.Fraction (exact value and exact type), exhaustive small pairs, sampled large pairs, random expression trees run as Vyxal programs; sys.monitoring ride-along on the six element functions",
            "Exhaustive small operand space plus sampled large operands and chained expressions.",
            "Fraction arithmetic is the oracle; floor division defined as floor of the exact quotient, division by zero as 0 per the statement."),
    "C08": ("exploration",
            "self-referential law monitor: element(list) vs the list of the same element applied to the items through the same program path, three shapes, nested, eager and lazy, per curated table of documented-vectorising elements",
            "Sampled per (element, shape, eager/lazy) cell with a minimum of conclusive cases per cell.",
            "The curated table (data/c08_vectorising.json) is committed data derived from elements.yaml with written exclusions."),
    "C09": ("exploration",
            "sentinel-prefix monitor: every element key and modifier x element executed through program text on sentinels + arguments; identity and value of the prefix checked, history cases (every key above the entries 17 producer programs left, compared with the producer run alone), plus a sys.monitoring watch on helpers.pop for pops below the sentinel line",
            "All ~390 keys with generated argument tuples; only normally completed executions make a claim.",
            "Documented whole-stack operations are exempt by key."),
    "C10": ("exploration",
            "argument-snapshot monitor (G-val specs materialised twice, lazy arguments with an observation history, degenerate list shapes per argument position), copy-then-transform programs on harness-built and program-produced (endless, flagged) values, and a sys.monitoring PY_START/PY_RETURN ride-along that snapshots list arguments of every element function (append-only rule for lazy caches)",
            "All keys with generated arguments plus copy programs over D : Ḃ ¾ variables register global array.",
            "A lazy list argument may grow its cache but must denote the same sequence."),
    "C11": ("exploration",
            "read-history monitor: unique inputs, programs over explicit/implicit reads (element pops, ~ on a short stack) at top level and inside lambdas/functions; final stack and stdout vs the reference model, direct cyclic-stream check on recorded read events, event trace vs model",
            "Exhaustive over a 12-symbol alphabet up to length 4/5 x 7 input lists, random histories to length 12.",
            "Read events are recorded by rebinding get_input in the vyxal modules (secondary monitor)."),
    "C12": ("exploration",
            "depth-tuple monitors (at exit and at every top-level statement boundary via sys.monitoring LINE events) plus public probes (n, exec probe, implicit-read probe) spliced into break-heavy generated programs and decided by the reference model",
            "Sampled programs with break/recurse at every legal position and lazy-list printing.",
            "Depth tuple read from the four context lists named in the property's anchors; programs whose function frames were left by a swallowed exception are not 'normally finishing' and are skipped."),
    "C13": ("exploration",
            "lock-step plain-list model over observation histories on LazyList(iter(src)); ghost-truth invariant checked on every method return via sys.monitoring",
            "Exhaustive histories (length<=3 quick, <=4 thorough) over 24 parametrised observations on 40 sources, random histories to length 12.",
            "Python list semantics is the oracle; observations undefined on a plain list are not generated."),
    "C14": ("exploration",
            "instrumented infinite sources that count pulls and raise past a logical budget; catalogue of 42 transformations with linear need(n), all pairs and triples; values compared with the same program on a finite prefix",
            "All catalogue entries and compositions up to 3, n<=40, first-n and item-n.",
            "need(n) bounds are committed data measured on the pinned tree with slack 2; termination is the bounded statement 'within the pull budget'."),
    "C15": ("exploration",
            "round-trip monitor through program text for øC øc øD τ β: compressed literal run as a program must leave the original; length check for dictionary compression; digit range check",
            "Exhaustive small ranges, boundary values b^k-1, b^k, b^k+1, random large values and strings.",
            "Equality / length comparison is the oracle."),
    "C16": ("exploration",
            "36 executable laws with itertools/builtins right-hand sides over all small integer lists and random lists/strings, each also as lazy / nested-lazy / sympy-integer variants, plus ~130 composed laws (second element on the first one's result)",
            "Exhaustive small lists plus random; every law must be evaluated (per-law minimum counters).",
            "Orders compared only where the documentation fixes them, multisets otherwise."),
    "C17": ("exploration",
            "39 laws against naive reference definitions (trial division, Euclid, Pascal ...) with exact value and type, exhaustive n ranges, pairs, special numbers (pseudoprimes, Carmichael numbers, every n inside the maximal prime gaps below 1e12), inverse pairs, flag variants, and the laws re-run after large-argument programs in the same process",
            "Exhaustive 0..2000 (quick) / 0..20000 (thorough) plus random to 1e12.",
            "Naive definitions are the oracle."),
    "C18": ("exploration",
            "shape-whitelist + taint monitor on transpile output: statement skeletons and identifier vocabulary derived at run time from a benign corpus of the same tree; hostile payloads at every text position; compile audit events counted",
            "Exhaustive short payloads at 22 positions, all raw strings of length<=4, random code-page/Unicode strings; transpile's own parameters (dict_compress, variables_as_digraphs) in both tiers.",
            "Whitelist derived from the tree under test (a legitimate refactor moves both sides); held-out benign programs guard against an over-tight whitelist."),
    "C19": ("exploration",
            "audit-event trace checker (compile/exec/open/os.system/subprocess/socket), canary in builtins, stdout + fd 1 recorders, output-record comparison with the reference model, failpoints raising at the k-th call of element functions",
            "Sampled model-determined programs, taint programs through E † Ė and inputs, Vyxal-source break-outs at every name position, offline runs before the online ones in the same process, fault injection; positive control offline.",
            "sympy-backed string overloads are outside the property; taint marker must not collide with repo identifiers."),
    "C20": ("exploration",
            "exhaustive execution of code-page converters, lexer, parser and transpiler on every byte pair and table key; every byte string of length <= 2 as a program file in both encodings through execute_vyxal with the transpiler input recorded; every element run directly and through a modifier (arity in use); ast read of the table source for duplicate keys",
            "Finite domain enumerated completely by running the real functions; a monitor compares each result with the one-token / round-trip / arity oracle.",
            "elements.yaml read by a subset parser; duplicate dict keys read statically (leave no run-time trace)."),
}

NOT_BUILT = {}


def main():
    props = []
    with open(os.path.join(HERE, "properties.jsonl"), encoding="utf-8") as f:
        for line in f:
            if line.strip():
                props.append(json.loads(line)["id"])
    checks = []
    for pid in props:
        if pid not in CHECKS:
            continue
        level, technique, text, note = CHECKS[pid]
        checks.append(
            {
                "property_id": pid,
                "quick_cmd": f"./check {pid} --tier quick",
                "thorough_cmd": f"./check {pid} --tier thorough",
                "evidence_file": f"/verif/evidence/{pid}.json",
                "replay_cmd_template": f"./check {pid} --replay {{path}}",
                "engine": "monitor-harness",
                "level_claimed": {"category": level, "text": text, "design_ref": f"DESIGN.md §1 {pid}"},
                "level_note": note,
                "technique": technique,
            }
        )
    na = [
        {"property_id": pid, "reason": NOT_BUILT.get(pid, "check not built yet (work in progress); planned as a runtime monitor, see DESIGN.md")}
        for pid in props
        if pid not in CHECKS
    ]
    manifest = {
        "version": 1,
        "setup_cmd": "/venv/bin/pip install -q --no-index --find-links /opt/veriftools/wheels --target /verif/.deps icontract || true",
        "hooks": {
            "guard": "VYXAL2_VERIF",
            "enable": "no source hooks: all instrumentation attaches from outside (sys.monitoring, audit hooks, namespace rebinding, icontract); checks import /repo's working tree in a fresh interpreter with VYXAL2_VERIF=1 set",
            "baseline_off_cmd": "cd /repo && /venv/bin/python -m pytest -ra -q -p no:cacheprovider --timeout=900 --continue-on-collection-errors",
            "source_commits": [],
            "add_only": True,
        },
        "engines": [
            {
                "name": "monitor-harness",
                "path": "/verif/check",
                "serves_properties": [c["property_id"] for c in checks],
                "kind_free_text": "supervisor + 16 worker subprocesses executing the real interpreter under monitors (sys.monitoring, audit hooks, icontract, instrumented sources, reference models)",
            }
        ],
        "checks": checks,
        "not_applicable": na,
        "notes": "Runtime monitoring only. Exit 0 held / 1 VIOLATION / 2 INCONCLUSIVE (deciding monitor saw too little). Known findings: /verif/known_findings.json.",
    }
    with open(os.path.join(HERE, "MANIFEST.json"), "w", encoding="utf-8") as f:
        json.dump(manifest, f, ensure_ascii=False, indent=1)
        f.write("\n")
    try:
        import jsonschema

        with open("/root/.vp/MANIFEST.schema.json") as f:
            jsonschema.validate(manifest, json.load(f))
        print("MANIFEST.json valid;", len(checks), "checks,", len(na), "not claimed")
    except ImportError:
        print("written (jsonschema unavailable)")


if __name__ == "__main__":
    main()
