#!/usr/bin/env python3
"""Regenerates MANIFEST.json from the table below (kept in one place so the
manifest stays valid and consistent while checks are added)."""
import json
import os

HERE = os.path.dirname(os.path.dirname(os.path.abspath(__file__)))

CHECKS = {
    # id: (level, technique, level text, level note)
    "C20": (
        "exploration",
        "exhaustive execution of code-page converters, lexer, parser and transpiler on every byte pair and table key; ast read of the table source for duplicate keys",
        "Finite domain enumerated completely by running the real functions; a monitor compares each result with the one-token / round-trip / arity oracle.",
        "elements.yaml read by a subset parser; duplicate dict keys read statically (leave no run-time trace).",
    ),
}

NOT_BUILT = {}


def main():
    props = []
    with open(os.path.join(HERE, "properties.jsonl"), encoding="utf-8") as f:
        for line in f:
            if line.strip():
                props.append(json.loads(line)["id"])
    checks = []
    for pid in props:
        if pid not in CHECKS:
            continue
        level, technique, text, note = CHECKS[pid]
        checks.append(
            {
                "property_id": pid,
                "quick_cmd": f"./check {pid} --tier quick",
                "thorough_cmd": f"./check {pid} --tier thorough",
                "evidence_file": f"/verif/evidence/{pid}.json",
                "replay_cmd_template": f"./check {pid} --replay {{path}}",
                "engine": "monitor-harness",
                "level_claimed": {"category": level, "text": text, "design_ref": f"DESIGN.md §1 {pid}"},
                "level_note": note,
                "technique": technique,
            }
        )
    na = [
        {"property_id": pid, "reason": NOT_BUILT.get(pid, "check not built yet (work in progress); planned as a runtime monitor, see DESIGN.md")}
        for pid in props
        if pid not in CHECKS
    ]
    manifest = {
        "version": 1,
        "setup_cmd": "/venv/bin/pip install -q --no-index --find-links /opt/veriftools/wheels --target /verif/.deps icontract || true",
        "hooks": {
            "guard": "VYXAL2_VERIF",
            "enable": "no source hooks: all instrumentation attaches from outside (sys.monitoring, audit hooks, namespace rebinding, icontract); checks import /repo's working tree in a fresh interpreter with VYXAL2_VERIF=1 set",
            "baseline_off_cmd": "cd /repo && /venv/bin/python -m pytest -ra -q -p no:cacheprovider --timeout=900 --continue-on-collection-errors",
            "source_commits": [],
            "add_only": True,
        },
        "engines": [
            {
                "name": "monitor-harness",
                "path": "/verif/check",
                "serves_properties": [c["property_id"] for c in checks],
                "kind_free_text": "supervisor + 16 worker subprocesses executing the real interpreter under monitors (sys.monitoring, audit hooks, icontract, instrumented sources, reference models)",
            }
        ],
        "checks": checks,
        "not_applicable": na,
        "notes": "Runtime monitoring only. Exit 0 held / 1 VIOLATION / 2 INCONCLUSIVE (deciding monitor saw too little). Known findings: /verif/known_findings.json.",
    }
    with open(os.path.join(HERE, "MANIFEST.json"), "w", encoding="utf-8") as f:
        json.dump(manifest, f, ensure_ascii=False, indent=1)
        f.write("\n")
    try:
        import jsonschema

        with open("/root/.vp/MANIFEST.schema.json") as f:
            jsonschema.validate(manifest, json.load(f))
        print("MANIFEST.json valid;", len(checks), "checks,", len(na), "not claimed")
    except ImportError:
        print("written (jsonschema unavailable)")


if __name__ == "__main__":
    main()
