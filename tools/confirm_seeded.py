#!/usr/bin/env python3
"""Confirms an independently written seeded change and files it under /verif/seeded/<id>/.

    tools/confirm_seeded.py C13 A          (reads /tmp/seed/C13/patchA.diff, demoA.py, notes.md)

Confirmation = in a fresh scratch copy of /repo (outside /repo and /verif, removed afterwards):
  demo passes on the unchanged copy; patch applies; the repository's own test-suite still
  passes with it; the demo fails with it. Only then is seeded/<id>/ written
  (patch.diff, demo.py, meta.json)."""
import json
import os
import shutil
import subprocess
import sys
import tempfile

VERIF = os.path.dirname(os.path.dirname(os.path.abspath(__file__)))
PY = "/venv/bin/python"


def run(cmd, cwd, timeout=900):
    try:
        p = subprocess.run(cmd, cwd=cwd, capture_output=True, text=True, stdin=subprocess.DEVNULL, timeout=timeout)
        return p.returncode, (p.stdout + p.stderr)[-1500:]
    except subprocess.TimeoutExpired:
        return 124, "timeout"


def main():
    prop, letter = sys.argv[1], sys.argv[2]
    root = sys.argv[3] if len(sys.argv) > 3 else "/tmp/seed"
    tag = sys.argv[4] if len(sys.argv) > 4 else letter   # id suffix under seeded/ (round 2 uses C / D)
    src = f"{root}/{prop}"
    patch = os.path.join(src, f"patch{letter}.diff")
    demo = os.path.join(src, f"demo{letter}.py")
    if not (os.path.exists(patch) and os.path.exists(demo)):
        print(json.dumps({"id": f"{prop}-{letter}", "status": "missing files"}))
        return 2
    d = tempfile.mkdtemp(prefix="verif-seedconfirm-")
    dst = os.path.join(d, "repo")
    out = {"id": f"{prop}-{tag}", "property": prop}
    try:
        shutil.copytree("/repo", dst, ignore=shutil.ignore_patterns(".git", "__pycache__", ".pytest_cache"))
        text = open(demo, encoding="utf-8").read().replace(src, dst)
        open(os.path.join(dst, "demo.py"), "w", encoding="utf-8").write(text)
        rc0, o0 = run([PY, "demo.py"], dst, 120)
        out["demo_on_unchanged"] = rc0
        a = subprocess.run(["patch", "-p1", "-s", "--no-backup-if-mismatch", "-i", patch], cwd=dst, capture_output=True, text=True)
        if a.returncode != 0:
            out["status"] = "patch does not apply"
            out["detail"] = (a.stdout + a.stderr)[-300:]
            print(json.dumps(out, ensure_ascii=False))
            return 1
        rct, ot = run([PY, "-m", "pytest", "-q", "-p", "no:cacheprovider", "--timeout=900"], dst, 1200)
        out["tests_with_change"] = ot.strip().splitlines()[-1] if ot.strip() else ""
        out["tests_rc"] = rct
        rc1, o1 = run([PY, "demo.py"], dst, 120)
        out["demo_with_change"] = rc1
        out["demo_output_with_change"] = o1[-400:]
        ok = rc0 == 0 and rct == 0 and rc1 != 0 and rc1 != 124
        out["status"] = "confirmed" if ok else "REJECTED"
        if ok:
            tgt = os.path.join(VERIF, "seeded", f"{prop}-{tag}")
            os.makedirs(tgt, exist_ok=True)
            shutil.copy(patch, os.path.join(tgt, "patch.diff"))
            open(os.path.join(tgt, "demo.py"), "w", encoding="utf-8").write(
                open(demo, encoding="utf-8").read().replace(src, "REPO_ROOT"))
            notes = ""
            np = os.path.join(src, "notes.md")
            if os.path.exists(np):
                notes = open(np, encoding="utf-8").read()
            meta = {
                "id": f"{prop}-{tag}",
                "property": prop,
                "written_by": "independent sub-agent given only the property text and a scratch worktree",
                "needs_to_manifest": "see notes",
                "notes": notes[:6000],
                "confirmed": {
                    "how": "tools/confirm_seeded.py on a scratch copy of /repo",
                    "demo_on_unchanged_rc": rc0, "tests_with_change": out["tests_with_change"],
                    "demo_with_change_rc": rc1,
                },
                "demo_usage": "replace REPO_ROOT in demo.py by the repository root, run /venv/bin/python demo.py < /dev/null",
            }
            json.dump(meta, open(os.path.join(tgt, "meta.json"), "w", encoding="utf-8"), ensure_ascii=False, indent=1)
        print(json.dumps(out, ensure_ascii=False))
        return 0 if ok else 1
    finally:
        shutil.rmtree(d, ignore_errors=True)


if __name__ == "__main__":
    sys.exit(main())
