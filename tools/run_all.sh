#!/bin/sh
# usage: tools/run_all.sh quick|thorough [ids...]   -- runs the checks one after another, prints one line each
tier="$1"; shift
ids="$*"
[ -z "$ids" ] && ids="C01 C02 C03 C04 C05 C06 C07 C08 C09 C10 C11 C12 C13 C14 C15 C16 C17 C18 C19 C20"
for id in $ids; do
  start=$(date +%s)
  ./check "$id" --tier "$tier" > "/tmp/runall_$id.log" 2>&1
  rc=$?
  end=$(date +%s)
  echo "$id tier=$tier exit=$rc wall=$((end-start))s :: $(grep 'tier=' /tmp/runall_$id.log | grep -v KNOWN | tail -1 | cut -c1-200)"
  grep -E "^VIOLATION|^INCONCLUSIVE|witness:" "/tmp/runall_$id.log" | head -6 | cut -c1-400
done
