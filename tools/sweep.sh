#!/bin/sh
# tools/sweep.sh : quick tier of every check for VERIF_SEED=1,2,3, then the thorough tier of the checks given as arguments
for seed in 1 2 3; do
  echo "== quick, VERIF_SEED=$seed"
  VERIF_SEED=$seed tools/run_all.sh quick
done
if [ -n "$*" ]; then
  echo "== thorough: $*"
  tools/run_all.sh thorough "$@"
fi
