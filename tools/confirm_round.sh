#!/bin/sh
# tools/confirm_round.sh <root> <tagA> <tagB> C05 C07 ... : confirm <root>/<id>/patch{A,B}.diff as seeded/<id>-<tagA> and <id>-<tagB>
root="$1"; ta="$2"; tb="$3"; shift 3
for P in "$@"; do
  python3 tools/confirm_seeded.py $P A "$root" "$ta" | python3 -c "import sys,json; d=json.loads(sys.stdin.read()); print(d['id'], d['status'], d.get('tests_with_change'), d.get('demo_with_change'), d.get('detail',''))"
  python3 tools/confirm_seeded.py $P B "$root" "$tb" | python3 -c "import sys,json; d=json.loads(sys.stdin.read()); print(d['id'], d['status'], d.get('tests_with_change'), d.get('demo_with_change'), d.get('detail',''))"
done
