#!/bin/sh
# tools/confirm_round6.sh C05 C07 ... : confirm /tmp/seed7/<id>/patchA.diff as seeded/<id>-L
for P in "$@"; do
  python3 tools/confirm_seeded.py $P A /tmp/seed7 L | python3 -c "import sys,json; d=json.loads(sys.stdin.read()); print(d['id'], d['status'], d.get('tests_with_change'), d.get('demo_with_change'), d.get('detail',''))"
done
