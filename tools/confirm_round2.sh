#!/bin/sh
# tools/confirm_round2.sh C05 C07 ... : confirm /tmp/seed2/<id>/patch{A,B}.diff as seeded/<id>-C and <id>-D
for P in "$@"; do
  python3 tools/confirm_seeded.py $P A /tmp/seed2 C | python3 -c "import sys,json; d=json.loads(sys.stdin.read()); print(d['id'], d['status'], d.get('tests_with_change'), d.get('demo_with_change'), d.get('detail',''))"
  python3 tools/confirm_seeded.py $P B /tmp/seed2 D | python3 -c "import sys,json; d=json.loads(sys.stdin.read()); print(d['id'], d['status'], d.get('tests_with_change'), d.get('demo_with_change'), d.get('detail',''))"
done
