#!/usr/bin/env python3
"""mkmutant.py <base repo dir> <name> <file> <old> <new> : writes mutants/<name>.patch (unified diff, -p1)."""
import difflib, os, sys
base, name, rel, old, new = sys.argv[1:6]
src = open(os.path.join(base, rel), encoding="utf-8").read()
assert src.count(old) == 1, (name, src.count(old))
dst = src.replace(old, new)
diff = difflib.unified_diff(src.splitlines(True), dst.splitlines(True), "a/" + rel, "b/" + rel)
out = os.path.join(os.path.dirname(os.path.dirname(os.path.abspath(__file__))), "mutants", name + ".patch")
open(out, "w", encoding="utf-8").write("".join(diff))
print("wrote", out)
